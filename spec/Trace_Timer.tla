----------------------------- MODULE Trace_Timer -----------------------------
(* Validates recorded executions of the real crux_time command API against Timer.tla. *)
EXTENDS Timer, Json, IOUtils

Rec == ndJsonDeserialize(IOEnv.TRACE)
VARIABLES l, tid, seen
vars == <<tvars, l, tid, seen>>
Line == Rec[l]

TInit == Init /\ l = 1 /\ tid = [i \in T |-> 0] /\ seen = {} /\ TLCSet(1, 1)

Kinds(s) == [k \in DOMAIN s |-> s[k].k]

Step ==
  /\ l <= Len(Rec)
  /\ l' = l + 1
  /\ \/ /\ Line.e = "tcase" /\ Line.n = N
        /\ phase' = [i \in T |-> "built"] /\ handle' = [i \in T |-> "held"]
        /\ start' = [i \in T |-> "none"] /\ sval' = [i \in T |-> FALSE]
        /\ clr' = [i \in T |-> "none"] /\ woken' = [i \in T |-> TRUE]
        /\ outs' = [i \in T |-> <<>>] /\ wrong' = [i \in T |-> FALSE]
        /\ tid' = [i \in T |-> 0] /\ UNCHANGED seen
     \/ /\ Line.e = "t" /\ Line.a = "poll"
        /\ LET i == Line.i IN
           /\ Kinds(Line.outs) = NewOutputs(i)
           /\ Poll(i)
           /\ Line.done = (phase'[i] \in {"completed", "cleared", "abandoned"})
           \* ids: the start request names the timer; it is new in this process; the clear request
           \* carries the same id
           /\ \A k \in DOMAIN Line.outs :
                /\ Line.outs[k].k = "eff_start" => Line.outs[k].id \notin seen
                /\ Line.outs[k].k = "eff_clear" => Line.outs[k].id = tid[i]
                \* a completed timer hands the app a handle that names itself
                /\ Line.outs[k].k = "ev_completed" => Line.outs[k].id = tid[i]
           /\ tid' = IF \E k \in DOMAIN Line.outs : Line.outs[k].k = "eff_start"
                     THEN [tid EXCEPT ![i] = Line.outs[CHOOSE k \in DOMAIN Line.outs : Line.outs[k].k = "eff_start"].id]
                     ELSE tid
           /\ seen' = seen \cup {Line.outs[k].id : k \in {j \in DOMAIN Line.outs : Line.outs[j].k = "eff_start"}}
     \/ /\ Line.e = "t" /\ Line.a = "fire"
        /\ Line.res = FireResult(Line.i) /\ ShellFires(Line.i) /\ UNCHANGED <<tid, seen>>
     \/ /\ Line.e = "t" /\ Line.a = "fire_wrong" /\ Line.res = "ok"
        /\ ShellFiresWrong(Line.i) /\ UNCHANGED <<tid, seen>>
     \* the poll in which a task finds an answer that names another timer ends in a panic (and the case with it)
     \/ /\ Line.e = "panic" /\ Line.step.a = "poll"
        /\ LET o == NewOutputs(Line.step.i) IN o # <<>> /\ o[Len(o)] = "panic"
        /\ Poll(Line.step.i) /\ UNCHANGED <<tid, seen>>
     \/ /\ Line.e = "t" /\ Line.a = "clear" /\ Line.res = "ok"
        /\ AppClears(Line.i) /\ UNCHANGED <<tid, seen>>
     \/ /\ Line.e = "t" /\ Line.a = "drop_handle" /\ Line.res = "ok"
        /\ DropHandle(Line.i) /\ UNCHANGED <<tid, seen>>
     \/ /\ Line.e = "t" /\ Line.a = "drop_start" /\ Line.res = "ok"
        /\ ShellDropsStart(Line.i) /\ UNCHANGED <<tid, seen>>
     \/ /\ Line.e = "t" /\ Line.a = "answer_clear"
        /\ Line.res = AnswerClearResult(Line.i) /\ ShellAnswersClear(Line.i) /\ UNCHANGED <<tid, seen>>
     \/ /\ Line.e = "t" /\ Line.a = "drop_clear" /\ Line.res = "ok"
        /\ ShellDropsClear(Line.i) /\ UNCHANGED <<tid, seen>>

TSpec == TInit /\ [][Step]_vars
Progress == IF l > TLCGet(1) THEN TLCSet(1, l) ELSE TRUE
Accepted ==
  LET n == TLCGet(1) IN
  IF n > Len(Rec) THEN TRUE ELSE PrintT(<<"REJECTED_AT", n, Rec[n]>>) /\ FALSE
=============================================================================
