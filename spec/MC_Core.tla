------------------------------- MODULE MC_Core -------------------------------
(* Exhaustive exploration of the core's event loop (CruxCore.tla) for small apps: every poll    *)
(* order, every order of applying queued events of different tasks, every shell schedule of     *)
(* events, resolutions, drops and aborts.  Terminal behaviours are printed for replay.          *)
EXTENDS CruxCore, Json, IOUtils

Apps == JsonDeserialize(IOEnv.APPS)      \* JSON array of [progs, follow]
MaxAct == atoi(IOEnv.MAXACT)
\* "core": Core::process_event / resolve (events applied inside the call);  "tester": AppTester (events handed
\* back by update / resolve, fed back by the test -- any of them, in any order, or never)
Tester == "HOSTMODE" \in DOMAIN IOEnv /\ IOEnv.HOSTMODE = "tester"

VARIABLES aidx, hist, applied
mvars == <<aidx, hist, applied>>
vars == <<cvars, corevars, mvars>>

MInit == CInit /\ table = [progs |-> <<>>, follow |-> <<>>, legacy |-> FALSE]
         /\ aidx = 0 /\ hist = <<>> /\ applied = {}

Pick ==
  /\ aidx = 0
  /\ \E a \in DOMAIN Apps :
       /\ aidx' = a
       /\ table' = [progs |-> Apps[a].progs, follow |-> Apps[a].follow, legacy |-> FALSE]
  /\ UNCHANGED <<cvars, modelLog, phase, registry, hist, applied>>

Idle == aidx # 0 /\ phase = "idle" /\ Len(hist) < MaxAct

MEvent ==
  /\ Idle
  /\ \E ev \in {[kind |-> "run", p |-> p - 1] : p \in DOMAIN table.progs} \cup {[kind |-> "noop"]} :
       \* only the first program is started from outside (the others are follow-ups); noop probes
       /\ (ev.kind = "run" => ev.p = 0)
       /\ ProcessEvent(ev)
       /\ hist' = Append(hist, IF ev.kind = "run" THEN [a |-> "run", p |-> ev.p] ELSE [a |-> "noop"])
  /\ UNCHANGED <<aidx, applied>>

Held == {r \in DOMAIN reqs : reqs[r].held}

MResolve ==
  /\ Idle
  /\ \E r \in Held :
       /\ ResolveResult(r) = "ok"
       /\ CoreResolve(r, reqs[r].nres + 1)
       /\ hist' = Append(hist, [a |-> "resolve", o |-> r, val |-> reqs[r].nres + 1])
  /\ UNCHANGED <<aidx, applied>>

MDrop ==
  /\ Idle
  /\ \E r \in Held :
       /\ reqs[r].senderAlive /\ reqs[r].kind # "never"
       /\ \E al \in Aliases(r) : DropReq(r, al)
       /\ hist' = Append(hist, [a |-> "drop", o |-> r])
  /\ UNCHANGED <<aidx, applied, corevars>>

MAbort ==
  /\ Idle
  /\ \E c \in DOMAIN cmds :
       /\ c # CORE /\ cmds[c].alive /\ ~cmds[c].aborted
       /\ AbortCmd(c)
       /\ hist' = Append(hist, [a |-> "abort", c |-> c])
  /\ UNCHANGED <<aidx, applied, corevars>>

MInternal == CoreInternal /\ UNCHANGED mvars

MApply ==
  /\ ~Tester
  /\ \E i \in cmds[CORE].out : ApplyEvent(i) /\ applied' = applied \cup {i.o}
  /\ UNCHANGED <<aidx, hist>>

MReturn == ~Tester /\ CoreReturn /\ UNCHANGED <<registry, aidx, hist, applied>>

\* AppTester: the call returns effects and events; in this mode `applied` holds the events handed back so far
\* (as the records the test gets); the ones the test has not fed back yet are those the log does not show
MTesterReturn ==
  /\ Tester /\ TesterReturn
  /\ applied' = applied \cup {LogEntry(i) : i \in {j \in cmds[CORE].out : j.kind = "ev"}}
  /\ UNCHANGED <<registry, aidx, hist>>

Fed == {modelLog[k] : k \in {j \in DOMAIN modelLog : modelLog[j].kind = "ev"}}
MFeed ==
  /\ Tester /\ Idle
  /\ \E e \in applied \ Fed :
       /\ ProcessEvent(e)
       /\ hist' = Append(hist, [a |-> "feed", o |-> e.o])
  /\ UNCHANGED <<aidx, applied>>

MNext == Pick \/ MEvent \/ MResolve \/ MDrop \/ MAbort \/ MInternal \/ MApply \/ MReturn \/ MTesterReturn \/ MFeed
MSpec == MInit /\ [][MNext]_vars

---------------------------------------------------------------------------
\* C03: every emitted event is applied at most once (exactly once by the time the call returns)
AppliedOnce ==
  \A i, j \in DOMAIN modelLog :
     (i # j /\ modelLog[i].kind = "ev" /\ modelLog[j].kind = "ev") => modelLog[i].o # modelLog[j].o
\* C03: events of one task are applied in the order the task emitted them
PerTaskOrder ==
  Tester \/       \* (under AppTester the order of feeding events back is the test's own choice)
  \A i, j \in DOMAIN modelLog :
     (i < j /\ modelLog[i].kind = "ev" /\ modelLog[j].kind = "ev"
        /\ modelLog[i].o[1] = modelLog[j].o[1] /\ modelLog[i].o[2] = modelLog[j].o[2])
     => modelLog[i].o[3] < modelLog[j].o[3]
\* C01: when a call has returned nothing queued is left for a later call: no event, no effect
NothingDeferred == (phase = "idle") => cmds[CORE].out = {}
\* C01/C05: ... and nothing runnable, unless the shell dropped a request since (a drop runs nothing)
QuietWhenIdle ==
  (phase = "idle" /\ (hist = <<>> \/ hist[Len(hist)].a \notin {"drop", "abort"}))
     => \A t \in ready : tasks[t].st # "live"
\* C13: an executor task exists only while the command it hosts does
ExecTasksReleased ==
  \A t \in LiveIn(St, CORE) : tasks[t].hosting # NONE => cmds[tasks[t].hosting].alive
ReadyClosedCore == \A t \in ready : tasks[t].st = "live" => \A h \in HostChain(St, t) : h \in ready \/ h = run

\* AppTester: an event is handed back to the test exactly once (never again by a later call)
HandedBackOnce == Tester => \A i \in cmds[CORE].out : i.kind = "ev" => LogEntry(i) \notin applied

Terminal == aidx # 0 /\ phase = "idle" /\ (Len(hist) >= MaxAct \/ ~ENABLED (MEvent \/ MResolve \/ MDrop \/ MAbort \/ MFeed))
EmitSched == Terminal => PrintT(<<"SCHED", ToJson([p |-> aidx - 1, steps |-> hist])>>)
=============================================================================
