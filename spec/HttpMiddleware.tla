---------------------------- MODULE HttpMiddleware ----------------------------
(***************************************************************************)
(* C16: middleware wraps a request in order and reaches the shell exactly  *)
(* once per invocation of the rest of the chain; the redirect middleware   *)
(* (crux_http/src/middleware/redirect.rs) probes with a body-less clone,   *)
(* follows at most `attempts` redirects, resolves relative locations       *)
(* against the current URL, stops at the first non-redirect status and     *)
(* then forwards the original request with its body (client.rs,            *)
(* middleware.rs).                                                         *)
(*                                                                         *)
(* URLs are [dir, file]; the server is a chain of hops from the start URL: *)
(* the URL reached after i correct resolutions answers with hop i+1; every *)
(* other URL answers 404.                                                  *)
(***************************************************************************)
EXTENDS Naturals, Sequences, FiniteSets, TLC, Json

U0 == [dir |-> <<"x">>, file |-> "y"]
AbsTarget(i) == [dir |-> <<"abs" \o ToString(i)>>, file |-> "t"]

HopKind == {"abs", "rel_dir", "rel_file", "noloc", "invalid", "nr300", "nr304"}
\* nr300: status 300 Multiple Choices *with* an absolute Location; nr304: 304 Not Modified without one --
\* 3xx statuses that are not redirects: the middleware must stop there
RedirCodes == <<301, 302, 303, 307, 308>>
RedirCode(i) == RedirCodes[(i % 5) + 1]
IsRedirect(st) == st \in {301, 302, 303, 307, 308}

\* correct resolution of a hop's Location against the current URL
Resolve(cur, kind, i) ==
  CASE kind = "abs"      -> AbsTarget(i)
    [] kind = "rel_dir"  -> [dir |-> Append(cur.dir, "d" \o ToString(i)), file |-> ""]
    [] kind = "rel_file" -> [dir |-> cur.dir, file |-> "f" \o ToString(i)]
    [] kind = "nr300"    -> AbsTarget(i)      \* where its Location points (nobody may go there)
    [] OTHER             -> cur

\* URL after following the first i hops correctly (noloc keeps the URL; invalid ends the chain)
RECURSIVE UrlAfter(_, _)
UrlAfter(hops, i) == IF i = 0 THEN U0 ELSE Resolve(UrlAfter(hops, i - 1), hops[i], i)

\* the server: what a request for url gets.  i = position in the chain, or 0 if the URL is unknown
Pos(hops, url) == IF \E i \in 0..Len(hops) : UrlAfter(hops, i) = url
                  THEN CHOOSE i \in 0..Len(hops) : UrlAfter(hops, i) = url /\ \A j \in 0..Len(hops) : UrlAfter(hops, j) = url => i <= j
                  ELSE 99

Answer(hops, final, url) ==
  LET p == Pos(hops, url) IN
  IF p = 99 THEN [status |-> 404, loc |-> "none"]
  ELSE IF p < Len(hops)
       THEN CASE hops[p + 1] = "nr300" -> [status |-> 300, loc |-> "abs", hop |-> p + 1]
              [] hops[p + 1] = "nr304" -> [status |-> 304, loc |-> "none", hop |-> p + 1]
              [] OTHER -> [status |-> RedirCode(p + 1), loc |-> hops[p + 1], hop |-> p + 1]
  ELSE [status |-> final, loc |-> "none"]

\* The redirect middleware: returns the shell requests it makes (probes, without body) and the
\* URL it finally forwards to, or an error
RECURSIVE Probe(_, _, _, _, _)
Probe(hops, final, url, left, acc) ==
  IF left = 0 THEN [reqs |-> acc, url |-> url, err |-> FALSE]
  ELSE LET a == Answer(hops, final, url)
           acc1 == Append(acc, [url |-> url, body |-> FALSE]) IN
       IF ~IsRedirect(a.status) THEN [reqs |-> acc1, url |-> url, err |-> FALSE]
       ELSE CASE a.loc = "noloc"   -> Probe(hops, final, url, left - 1, acc1)          \* probe again
              [] a.loc = "invalid" -> [reqs |-> acc1, url |-> url, err |-> TRUE]
              [] OTHER -> Probe(hops, final, Resolve(url, a.loc, a.hop), left - 1, acc1)

Mw == {"pass1", "pass2", "short", "extra", "extrar", "redir0", "redir1", "redir2", "redir3"}
Attempts(m) == CASE m = "redir0" -> 0 [] m = "redir1" -> 1 [] m = "redir2" -> 2 [] m = "redir3" -> 3

EXTRA == [dir |-> <<"extra">>, file |-> "e"]

\* Run the rest of the chain on a request; returns [log, out] with out = [k |-> "status"|"error"|"short", ..]
RECURSIVE Run(_, _, _, _, _)
Run(stack, hops, final, url, body) ==
  IF stack = <<>>
  THEN [log |-> << [t |-> "shell", url |-> url, body |-> body] >>,
        out |-> [k |-> "status", status |-> Answer(hops, final, url).status]]
  ELSE LET m == Head(stack) rest == Tail(stack) IN
       CASE m \in {"pass1", "pass2"} ->
              LET r == Run(rest, hops, final, url, body) IN
              [log |-> << [t |-> "enter", m |-> m] >> \o r.log \o << [t |-> "exit", m |-> m] >>, out |-> r.out]
         [] m = "short" -> [log |-> << [t |-> "enter", m |-> m] >>, out |-> [k |-> "short"]]
         [] m = "extra" ->
              \* a request of its own through the client it was given (no middleware), then the rest
              LET r == Run(rest, hops, final, url, body) IN
              [log |-> << [t |-> "shell", url |-> EXTRA, body |-> FALSE] >> \o r.log, out |-> r.out]
         [] m = "extrar" ->
              \* a request of its own that carries per-request middleware (Redirect, one attempt), prepared
              \* beforehand and sent as a clone: the clone is wrapped like any request -- one probe, then the
              \* request itself -- before the rest of the chain runs
              LET n == Run(<<"redir1">>, hops, final, EXTRA, FALSE)
                  r == Run(rest, hops, final, url, body) IN
              [log |-> n.log \o r.log, out |-> r.out]
         [] OTHER ->
              LET p == Probe(hops, final, url, Attempts(m), <<>>)
                  probes == [i \in DOMAIN p.reqs |-> [t |-> "shell", url |-> p.reqs[i].url, body |-> FALSE]] IN
              IF p.err THEN [log |-> probes, out |-> [k |-> "error"]]
              ELSE LET r == Run(rest, hops, final, p.url, body) IN [log |-> probes \o r.log, out |-> r.out]

HopSeqs == {<<>>} \cup {<<a>> : a \in HopKind} \cup {<<a, b>> : a \in HopKind, b \in HopKind}
           \cup {<<a, b, d>> : a \in {"abs", "rel_dir", "rel_file"}, b \in {"rel_dir", "rel_file", "abs"}, d \in HopKind}
           \cup {<<"rel_dir", "rel_file", "rel_dir", "rel_file">>, <<"abs", "rel_dir", "rel_file", "abs">>}
\* a chain is well formed if nothing follows an invalid location and URLs do not repeat by accident
WellFormed(h) == \A i \in DOMAIN h : (h[i] \in {"invalid", "nr300", "nr304"}) => i = Len(h)

Stacks == {<<>>} \cup {<<a>> : a \in Mw} \cup {<<a, b>> : a \in Mw, b \in Mw}
          \cup {<<a, b, d>> : a \in {"pass1", "redir2"}, b \in {"pass2", "extra", "extrar", "redir1", "short"}, d \in {"pass1", "redir3", "extra"}}

VARIABLES stack, hops, final, api
vars == <<stack, hops, final, api>>
Init == /\ stack \in Stacks /\ hops \in {h \in HopSeqs : WellFormed(h)} /\ final \in {200, 404}
        /\ api \in {"capability", "command"}
        \* keep the product small: long chains only with stacks that contain a redirect middleware
        /\ (Len(hops) > 1) => (\E i \in DOMAIN stack : stack[i] \in {"redir1", "redir2", "redir3"})
Next == UNCHANGED vars
Spec == Init /\ [][Next]_vars

R == Run(stack, hops, final, U0, TRUE)
ShellReqs == SelectSeq(R.log, LAMBDA e : e.t = "shell")

\* the shell is reached exactly once per invocation of the rest of the chain: at most one request
\* carries the body, exactly one unless something short-circuited or failed
BodyOnce ==
  LET nb == Cardinality({i \in DOMAIN ShellReqs : ShellReqs[i].body}) IN
  IF R.out.k \in {"short", "error"} THEN nb = 0 ELSE nb = 1
\* at most `attempts` probes per redirect middleware in the stack
BoundedProbes ==
  Cardinality({i \in DOMAIN ShellReqs : ~ShellReqs[i].body /\ ShellReqs[i].url # EXTRA})
    <= 3 * Cardinality({i \in DOMAIN stack : stack[i] \in {"redir1", "redir2", "redir3"}})

\* known deviation D6: the command API accepts .middleware(..) and ignores it
Deviations ==
  IF api = "command" /\ stack # <<>>
  THEN [D6 |-> [log |-> << [t |-> "shell", url |-> U0, body |-> TRUE] >>,
                out |-> [k |-> "status", status |-> Answer(hops, final, U0).status]]]
  ELSE <<>>

Emit == PrintT(<<"CASE", ToJson([kind |-> "http_mw",
                                 in |-> [stack |-> stack, hops |-> hops, final |-> final, api |-> api],
                                 out |-> R, kf |-> Deviations,
                                 server |-> [i \in 1..(Len(hops) + 1) |->
                                               [url |-> UrlAfter(hops, i - 1),
                                                ans |-> Answer(hops, final, UrlAfter(hops, i - 1)),
                                                next |-> UrlAfter(hops, IF i <= Len(hops) THEN i ELSE i - 1)]]])>>)
=============================================================================
