------------------------------ MODULE KeyValue ------------------------------
(***************************************************************************)
(* C17: every key-value call emits exactly one operation of its kind with  *)
(* the arguments unchanged, and the matching response (or error) reaches   *)
(* the app unchanged (crux_kv/src/lib.rs, command.rs, value.rs, error.rs). *)
(***************************************************************************)
EXTENDS Naturals, Sequences, FiniteSets, TLC, Json

Call  == {"get", "set", "delete", "exists", "list"}
Key   == {"k_empty", "k_ascii", "k_unicode", "k_long"}
Val   == {"v_empty", "v_bin", "v_large"}
Cur   == {"c_zero", "c_big"}
Err   == {"e_io", "e_timeout", "e_cursor", "e_other"}
Api   == {"command", "capability", "bridge_bin", "bridge_json"}

\* the responses of the matching kind
Resp(call) ==
  CASE call \in {"get", "set", "delete"} -> {[r |-> "absent"]} \cup {[r |-> "bytes", v |-> v] : v \in Val}
    [] call = "exists" -> {[r |-> "bool", b |-> b] : b \in BOOLEAN}
    [] call = "list"   -> {[r |-> "page", keys |-> ks, next |-> n] : ks \in {"ks_none", "ks_some"}, n \in Cur}

Cases ==
  UNION {[call : {cl}, key : Key, val : (IF cl = "set" THEN Val ELSE {"v_empty"}),
          cur : (IF cl = "list" THEN Cur ELSE {"c_zero"}),
          resp : Resp(cl) \cup {[r |-> "error", e |-> e] : e \in Err}, api : Api] : cl \in Call}

\* the single operation the shell must see
ExpectedOp(c) ==
  CASE c.call = "set"  -> [op |-> "set", key |-> c.key, val |-> c.val]
    [] c.call = "list" -> [op |-> "list", prefix |-> c.key, cur |-> c.cur]
    [] OTHER           -> [op |-> c.call, key |-> c.key]

\* what the app must receive: the response passed through; absent stays distinct from empty
ExpectedResult(c) == c.resp

VARIABLE c
Init == c \in Cases
Next == UNCHANGED c
Spec == Init /\ [][Next]_c

AbsentIsNotEmpty == \A x \in Resp("get") : (x.r = "absent") => x # [r |-> "bytes", v |-> "v_empty"]
Emit == PrintT(<<"CASE", ToJson([kind |-> "kv", in |-> c, out |-> [op |-> ExpectedOp(c), result |-> ExpectedResult(c)],
                                  kf |-> <<>>])>>)
=============================================================================
