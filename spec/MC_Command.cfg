SPECIFICATION MSpec
CONSTANT Sched = "any"
CONSTANT KFS = {}
INVARIANT ReadyClosed
INVARIANT EvictionSound
INVARIANT DoneWhenSettled
INVARIANT NoOutputAfterCancel
INVARIANT AbortedDoneAfterDrain
INVARIANT AritySafe
INVARIANT Released
INVARIANT ThenSequential
INVARIANT EmitSched
CHECK_DEADLOCK FALSE
