----------------------------- MODULE Trace_Core -----------------------------
(* Trace validation for apps driven through Core (typed) and through Bridge /                 *)
(* BridgeWithSerializer.  One trace line = one call into the core with everything it returned. *)
EXTENDS CruxCore, Json, IOUtils

Rec == ndJsonDeserialize(IOEnv.TRACE)

VARIABLES l, ph, lk, host

tvars == <<l, ph, lk, host>>
vars == <<cvars, corevars, tvars>>

Line == Rec[l]
IsBridge == host \in {"bridge_bin", "bridge_json"}
IsTester == host = "tester"      \* AppTester: events come back to the test instead of being applied

TInit == CInit /\ table = [progs |-> <<>>, follow |-> <<>>, legacy |-> FALSE]
         /\ l = 1 /\ ph = "act" /\ lk = 0 /\ host = ""
         /\ TLCSet(1, 1) /\ TLCSet(2, 0) /\ TLCSet(3, 0) /\ TLCSet(4, 0)

Reset ==
  /\ cmds' = (CORE :> CoreCmd) /\ tasks' = <<>> /\ ready' = {} /\ run' = NONE /\ reqs' = NoReqs
  /\ joinreg' = <<>> /\ rq' = (CORE :> <<>>) /\ sq' = (CORE :> <<>>)
  /\ modelLog' = <<>> /\ phase' = "idle" /\ registry' = <<>>

OrderOK(s, out) ==
  LET N(x) == (CHOOSE y \in out : y.o = x.o /\ y.kind = x.kind).n
      \* (an effect of a capability-API future goes straight to the core's channel, one of the command
      \* API is forwarded through its command: order is kept on each path, not between them)
      SamePath(x, y) == x.kind # "eff" \/ reqs[x.o].legacy = reqs[y.o].legacy IN
  \A i, j \in DOMAIN s : (i < j /\ s[i].o[1] = s[j].o[1] /\ s[i].o[2] = s[j].o[2] /\ SamePath(s[i], s[j]))
                            => N(s[i]) < N(s[j])

Obs(e) == [kind |-> e.kind, o |-> e.o, tag |-> e.tag, val |-> e.val]

Next1 == l' = l + 1 /\ UNCHANGED <<ph, lk, host>>
ToTake == ph' = "take" /\ lk' = 0 /\ UNCHANGED <<l, host>>

\* Between two calls the validator forgets what nothing can refer to any more (see Compact), so that
\* the cost of a step does not grow with the length of the history.  Only when it pays.
GoneCount == Cardinality({t \in DOMAIN tasks : tasks[t].st = "gone"})
Pinned == {registry[i].rid : i \in DOMAIN registry}
NeedsGc == /\ GoneCount >= 24
           /\ Cardinality(DOMAIN Compact(St, Pinned).tasks) + 12 <= Cardinality(DOMAIN tasks)
Gc ==
  /\ ph = "act" /\ run = NONE /\ l <= Len(Rec) /\ Line.e # "case"
  /\ NeedsGc
  /\ Put(Compact(St, Pinned))
  /\ modelLog' = [i \in DOMAIN modelLog |-> [kind |-> "noop"]]      \* (only its length is used from here on)
  /\ UNCHANGED <<run, phase, table, registry, tvars>>

Act ==
  /\ ph = "act" /\ l <= Len(Rec)
  /\ Line.e = "case" \/ ~NeedsGc
  /\ \/ /\ Line.e = "case"
        /\ Reset /\ table' = [progs |-> Line.progs, follow |-> Line.follow, legacy |-> Line.legacy]
        /\ host' = Line.host /\ l' = l + 1 /\ UNCHANGED <<ph, lk>>
     \/ /\ Line.e = "end" /\ Line.drop_ok
        /\ UNCHANGED <<cvars, corevars>> /\ Next1
     \/ /\ Line.e = "event"
        /\ IsBridge => Line.res = "ok"
        /\ Len(Line.log) >= 1 /\ Line.log[1] = Line.ev
        /\ ProcessEvent(Line.ev)
        /\ ph' = "take" /\ lk' = 1 /\ UNCHANGED <<l, host>>
     \/ /\ Line.e = "resolve" /\ ~IsBridge
        /\ Line.o \in DOMAIN reqs
        /\ ResolveResult(Line.o) = Line.res
        /\ CoreResolve(Line.o, Line.val)
        /\ ToTake
     \/ /\ Line.e = "resolve" /\ IsBridge
        /\ Line.id \in DOMAIN registry
        /\ registry[Line.id].rid = Line.o
        /\ ResolveResult(Line.o) = Line.res
        /\ LET keep == KnownDev("D10") /\ \E x \in Range(Line.reg) : x.id = Line.id IN
           /\ Respond(Line.id, Line.val, keep)
           /\ IF keep /\ Line.res = "finished" THEN TLCSet(3, TLCGet(3) + 1) ELSE TRUE
        /\ ToTake
     \/ /\ Line.e = "drop"
        /\ Line.o \in DOMAIN reqs
        /\ \E al \in Aliases(Line.o) : DropReq(Line.o, al)
        /\ UNCHANGED corevars /\ Next1
     \/ /\ Line.e = "abort"
        /\ AbortCmd(Line.c)
        /\ UNCHANGED corevars /\ Next1
     \/ /\ Line.e = "bad_event"
        /\ Line.res = "deserialize_event"
        /\ Line.us <= 1000000 /\ Line.peak <= 2097152 + 64 * Line.n
        /\ UNCHANGED <<cvars, corevars>>
        /\ ToTake
     \/ /\ Line.e = "bad_response"
        /\ Line.res = "deserialize_output"
        /\ Line.us <= 1000000 /\ Line.peak <= 2097152 + 64 * Line.n
        /\ Line.id \in DOMAIN registry /\ registry[Line.id].rid = Line.o
        /\ RespondBad(Line.id)
        /\ ToTake

Silent == ph = "take" /\ CoreInternal /\ UNCHANGED tvars

\* the next event the core applied, as the view shows it
Apply ==
  /\ ph = "take" /\ lk < Len(Line.log) /\ ~IsTester
  /\ \E i \in cmds[CORE].out :
       /\ i.kind = "ev" /\ LogEntry(i) = Line.log[lk + 1]
       /\ ApplyEvent(i)
  /\ lk' = lk + 1 /\ UNCHANGED <<l, ph, host>>

RegObs == {[id |-> x.id, kind |-> x.kind] : x \in Range(Line.reg)}
RegOf(R) == {[id |-> id, kind |-> R[id].kind] : id \in DOMAIN R}

Match ==
  /\ ph = "take"
  /\ Line.maxin <= 1
  /\ IF phase = "run"
     THEN /\ lk = Len(Line.log)
          /\ LET effs == CoreEffects IN
             /\ Range([i \in DOMAIN Line.effs |-> Obs(Line.effs[i])]) = {Strip(i) : i \in effs}
             /\ Len(Line.effs) = Cardinality(effs)
             /\ OrderOK(Line.effs, effs)
             /\ IF IsBridge
                THEN LET idOf == [o \in {e.o : e \in effs} |->
                                    (CHOOSE x \in Range(Line.effs) : x.o = o).id]
                         \* known deviation D9: entries of notifications are stored too
                         store == StrictStore(effs) \cup
                                  {i \in effs : /\ KnownDev("D9") /\ reqs[i.o].kind0 = "never"
                                                /\ [id |-> idOf[i.o], kind |-> "never"] \in RegObs}
                     IN /\ Register(effs, idOf, store)
                        /\ IF store # StrictStore(effs) THEN TLCSet(2, TLCGet(2) + 1) ELSE TRUE
                ELSE UNCHANGED registry
          /\ IF IsTester
             THEN LET evs == {i \in cmds[CORE].out : i.kind = "ev"} IN
                  /\ Range([i \in DOMAIN Line.evs |-> Obs(Line.evs[i])]) = {Strip(i) : i \in evs}
                  /\ Len(Line.evs) = Cardinality(evs)
                  /\ OrderOK(Line.evs, evs)
                  /\ TesterReturn
             ELSE CoreReturn
     ELSE /\ Line.effs = <<>> /\ Line.log = <<>>
          /\ IsTester => Line.evs = <<>>
          /\ UNCHANGED <<cvars, corevars>>
  /\ ("xt" \in DOMAIN Line) => Line.xt = ExecTasks
  /\ ("ops" \in DOMAIN Line /\ phase = "run") => Line.ops <= OpsAlive + Cardinality(CoreEffects)
  /\ IF \E t \in Live(St) : FlatStuck(St, t) THEN TLCSet(4, TLCGet(4) + 1) ELSE TRUE
  /\ ("alive" \in DOMAIN Line) => Range(Line.alive) = ScriptTasksAlive
  /\ IsBridge => RegObs = RegOf(registry')
  /\ l' = l + 1 /\ ph' = "act" /\ UNCHANGED <<lk, host>>

TNext == Act \/ Gc \/ Silent \/ Apply \/ Match
TSpec == TInit /\ [][TNext]_vars

Progress == IF l > TLCGet(1) THEN TLCSet(1, l) ELSE TRUE

Accepted ==
  LET n == TLCGet(1) IN
  /\ PrintT(<<"KFHITS", TLCGet(2), TLCGet(3), TLCGet(4)>>)
  /\ IF n > Len(Rec) THEN TRUE
     ELSE /\ PrintT(<<"REJECTED_AT", n, Rec[n]>>)
          /\ FALSE
=============================================================================
