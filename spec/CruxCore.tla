------------------------------ MODULE CruxCore ------------------------------
(***************************************************************************)
(* The core's event loop: Core::process_event / Core::resolve / process,   *)
(* the QueuingExecutor hosting every command `update` returns, the app's   *)
(* model as an append-only log, and (CruxBridge part) the bridge registry. *)
(* crux_core/src/core/mod.rs, capability/executor.rs, capability/mod.rs    *)
(* (CommandSpawner), bridge/mod.rs, bridge/registry.rs.                    *)
(***************************************************************************)
EXTENDS CruxCommand


VARIABLES
  modelLog,   \* sequence of applied events (the app's model; what `view` shows)
  phase,      \* "idle" | "run": a call into the core is in progress
  table,      \* the scripted app: [progs, follow]
  registry    \* bridge: id -> [rid, kind]

corevars == <<modelLog, phase, table, registry>>

CORE == <<0, 0>>                       \* pseudo command: the executor; its out = the two core channels
XTask(n) == <<n, 0>>                   \* executor task hosting the command returned by the n-th update
DoneProg == [k |-> "done", id |-> 0, tid |-> 1]

CoreCmd == [host |-> ROOT, aborted |-> FALSE, alive |-> TRUE, out |-> {}, exec |-> TRUE, wreg |-> FALSE, pass |-> "spawn"]

CInit ==
  /\ cmds = (CORE :> CoreCmd) /\ tasks = <<>> /\ ready = {} /\ run = NONE /\ reqs = NoReqs
  /\ joinreg = <<>> /\ rq = (CORE :> <<>>) /\ sq = (CORE :> <<>>)
  /\ modelLog = <<>> /\ phase = "idle" /\ registry = <<>>

\* what `update` returns for an event
ProgFor(ev) ==
  CASE ev.kind = "run"  -> table.progs[ev.p + 1]
    [] ev.kind \in {"noop", "data", "text"} -> DoneProg     \* (payload-carrying events the app only records)
    [] ev.kind = "ev"   -> IF ToString(ev.tag) \in DOMAIN table.follow
                           THEN table.progs[table.follow[ToString(ev.tag)] + 1] ELSE DoneProg

\* Legacy capability API: `update` calls capabilities, which spawn one executor task per leaf of the
\* program (CapabilityContext::spawn), in program order; the tasks are plain executor tasks
RECURSIVE LegacyTasks(_, _)
LegacyTasks(c, inst) ==     \* sequence of [key, code]
  CASE c.k = "done"   -> <<>>
    [] c.k = "event"  -> << [key |-> <<inst, c.tid>>, code |-> << [op |-> "emit", tag |-> c.tag, src |-> [c |-> c.val]] >>] >>
    [] c.k = "notify" -> << [key |-> <<inst, c.tid>>, code |-> << [op |-> "notify", tag |-> c.tag, src |-> [c |-> c.val]] >>] >>
    [] c.k = "chain"  -> << [key |-> <<inst, c.tid>>, code |-> ChainCode(c)] >>
    [] c.k = "async"  -> << [key |-> <<inst, c.tid>>, code |-> c.code] >>
    [] c.k = "and"    -> LegacyTasks(c.a, inst) \o LegacyTasks(c.b, inst)
    [] c.k = "all"    -> LET F[i \in 0..Len(c.cs)] == IF i = 0 THEN <<>> ELSE F[i - 1] \o LegacyTasks(c.cs[i].c, inst)
                         IN F[Len(c.cs)]

\* update(ev): the event is appended to the model; the returned command is spawned on the executor
\* (CommandSpawner::spawn: a task that polls the command as a Stream and forwards its outputs)
Update(S, ev, n) ==
  LET x  == XTask(n)
      lt == IF table.legacy THEN LegacyTasks(ProgFor(ev), n) ELSE <<>>
      prog == IF table.legacy THEN DoneProg ELSE ProgFor(ev)
      ltk == [i \in DOMAIN lt |-> lt[i].key]
      newT == [k \in {lt[i].key : i \in DOMAIN lt} |->
                 [NewTaskL(CORE, (lt[CHOOSE i \in DOMAIN lt : lt[i].key = k]).code, ZeroRegs, NoHandles, TRUE, TRUE)
                    EXCEPT !.script = TRUE]]
  IN
  [S EXCEPT !.tasks = (x :> NewTask(CORE, << HostI(prog, "id", "id") >>, ZeroRegs, NoHandles, TRUE)) @@ newT @@ @,
            !.ready = @ \cup {x} \cup DOMAIN newT,
            !.cmds[CORE].pass = "spawn",
            !.sq[CORE] = IF Fifo THEN @ \o ltk \o <<x>> ELSE @]

LogEntry(i) == [kind |-> "ev", o |-> i.o, tag |-> i.tag, val |-> i.val]

\* Core::process_event
ProcessEvent(ev) ==
  /\ phase = "idle" /\ run = NONE
  /\ modelLog' = Append(modelLog, ev)
  /\ Put(Update(St, ev, Len(modelLog) + 1))
  /\ phase' = "run"
  /\ UNCHANGED <<run, table, registry>>

\* Core::process: `while let Some(event) = capability_events.receive()` -- only when run_all returned
\* (nothing runnable); events of one task are taken in the order the task emitted them
ApplyEvent(i) ==
  /\ phase = "run" /\ Quiescent
  /\ i \in cmds[CORE].out /\ i.kind = "ev"
  /\ \A j \in cmds[CORE].out : (j.kind = "ev" /\ j.o[1] = i.o[1] /\ j.o[2] = i.o[2]) => i.n <= j.n
  /\ modelLog' = Append(modelLog, LogEntry(i))
  /\ Put(Update([St EXCEPT !.cmds[CORE].out = @ \ {i}], LogEntry(i), Len(modelLog) + 1))
  /\ UNCHANGED <<run, phase, table, registry>>

CoreEffects == {i \in cmds[CORE].out : i.kind = "eff"}

\* process returns: `self.requests.drain().collect()`
CoreReturn ==
  /\ phase = "run" /\ Quiescent
  /\ ~\E i \in cmds[CORE].out : i.kind = "ev"
  /\ cmds' = [cmds EXCEPT ![CORE].out = {}, ![CORE].pass = "spawn"]    \* (the next run_all starts afresh)
  /\ reqs' = MarkHeld(reqs, cmds[CORE].out)
  /\ phase' = "idle"
  /\ UNCHANGED <<tasks, ready, run, joinreg, rq, sq, modelLog, table>>

\* AppTester (crux_core/src/testing.rs): `update` / `resolve` = one run_all of the same executor, then BOTH
\* channels are drained and handed to the test: the events are returned, not applied (the test decides
\* whether, when and in which order to feed them back through `update`)
TesterReturn ==
  /\ phase = "run" /\ Quiescent
  /\ cmds' = [cmds EXCEPT ![CORE].out = {}, ![CORE].pass = "spawn"]
  /\ reqs' = MarkHeld(reqs, cmds[CORE].out)
  /\ phase' = "idle"
  /\ UNCHANGED <<tasks, ready, run, joinreg, rq, sq, modelLog, table>>

\* Core::resolve: a rejected resolution returns the error and runs nothing
CoreResolve(r, v) ==
  /\ phase = "idle"
  /\ \E al \in Aliases(r) : Resolve(r, v, al)
  /\ phase' = IF ResolveResult(r) = "ok" THEN "run" ELSE "idle"
  /\ UNCHANGED <<modelLog, table, registry>>

CoreInternal == phase = "run" /\ Internal /\ UNCHANGED corevars

ExecTasks == Cardinality(LiveIn(St, CORE))

---------------------------------------------------------------------------
(* Bridge: ResolveRegistry (bridge/registry.rs) and BridgeWithSerializer::process *)


\* entries the strict model keeps: requests that can still be resolved
Storable(kind) == kind # "never"

\* BridgeWithSerializer::process, after the core returned `items`: each effect is registered under
\* an id; idOf: request key -> id attached; store: the items whose entry is kept.
\* Entries that are kept get ids that are fresh and pairwise distinct.
Register(items, idOf, store) ==
  /\ \A i \in store : idOf[i.o] \notin DOMAIN registry
  /\ \A i, j \in store : i # j => idOf[i.o] # idOf[j.o]
  /\ registry' = [id \in DOMAIN registry \cup {idOf[i.o] : i \in store} |->
                    IF id \in DOMAIN registry THEN registry[id]
                    ELSE LET i == CHOOSE x \in store : idOf[x.o] = id IN
                         [rid |-> i.o, kind |-> reqs[i.o].kind0]]

\* the items the strict model stores
StrictStore(items) == {i \in items : Storable(reqs[i.o].kind0)}

\* handle_response(id, good payload): ResolveRegistry::resume, then Core::process unless rejected.
\* keepFinished: a stream entry whose consumer has ended stays (known deviation D10 only)
Respond(id, v, keepFinished) ==
  /\ phase = "idle"
  /\ id \in DOMAIN registry
  /\ LET r == registry[id].rid
         res == ResolveResult(r) IN
     /\ \E al \in Aliases(r) : Resolve(r, v, al)
     /\ phase' = IF res = "ok" THEN "run" ELSE "idle"
     /\ registry' = IF reqs[r].kind = "once" \/ reqs[r].kind = "never" \/ (res = "finished" /\ ~keepFinished)
                    THEN [x \in DOMAIN registry \ {id} |-> registry[x]] ELSE registry
  /\ UNCHANGED <<modelLog, table>>

\* handle_response(id, undecodable payload): a one-shot entry is consumed without calling the
\* continuation (its sender is dropped, which wakes the waiting task; nothing runs in this call);
\* a stream entry is untouched
RespondBad(id) ==
  /\ phase = "idle"
  /\ id \in DOMAIN registry
  /\ LET r == registry[id].rid IN
     IF reqs[r].kind = "once"
     THEN /\ \E al \in Aliases(r) : DropReq(r, al)
          /\ registry' = [x \in DOMAIN registry \ {id} |-> registry[x]]
     ELSE UNCHANGED <<cvars, registry>>
  /\ UNCHANGED <<modelLog, phase, table>>

=============================================================================
