------------------------------ MODULE MC_Proto ------------------------------
(* ExecProtocol against every environment, for a small slab and a bounded number of steps. *)
EXTENDS ExecProtocol, TLC

CONSTANT MaxSteps, MaxQueue
VARIABLE steps
vars == <<pvars, steps>>

MInit == PInit(0) /\ steps = 0

Env ==
  \/ \E n \in 0..Cardinality(Keys) : Settle(n)
  \/ Cleared(0, 0)
  \/ \E k \in Keys : Spawn(k) \/ Pop(k) \/ Poll(k, 1 - curGen)
  \/ \E k \in Keys, g \in {0, 1} : Len(rq) < MaxQueue /\ Wake(k, g)
  \/ Missing \/ AbortedTask
  \/ \E k \in Keys, r, l, f \in BOOLEAN : Polled(k, r, l, f)
  \/ \E nt \in 0..Cardinality(Keys) : Settled(0, 0, nt)

MNext == steps < MaxSteps /\ steps' = steps + 1 /\ Env
MSpec == MInit /\ [][MNext]_vars

\* a settle can always end: from every state inside run_until_settled the code reaches Settled without
\* the environment's help other than poll results (no deadlock inside the loop)
=============================================================================
