------------------------------- MODULE ValueEq -------------------------------
(***************************************************************************)
(* C11 (second half): the values the API hands to an app or a test compare *)
(* equal exactly when their contents are equal (crux_http Response<Body>   *)
(* PartialEq, response/response.rs).  Two responses are built independently *)
(* from sequences of header insertions; equality must be equality of       *)
(* status, body and of the header map name -> sequence of values.          *)
(***************************************************************************)
EXTENDS Naturals, Sequences, FiniteSets, TLC, Json

Name == {"n1", "n2", "n3"}
Valu == {"x", "y"}
\* a header insertion: name with one or two values (insert replaces earlier values of the name)
Ins == [n : Name, vs : {<<"x">>, <<"y">>, <<"x", "y">>}]
Builds == {<<>>} \cup {<<a>> : a \in Ins} \cup {<<a, b>> : a \in Ins, b \in Ins}
          \cup {<<a, b, d>> : a \in {[n |-> "n1", vs |-> <<"x">>]}, b \in {[n |-> "n2", vs |-> <<"x">>], [n |-> "n2", vs |-> <<"y">>]},
                              d \in {[n |-> "n3", vs |-> <<"x">>]}}
          \cup {<<d, b, a>> : a \in {[n |-> "n1", vs |-> <<"x">>]}, b \in {[n |-> "n2", vs |-> <<"x">>]},
                              d \in {[n |-> "n3", vs |-> <<"x">>]}}

RECURSIVE MapOf(_)
MapOf(b) == IF b = <<>> THEN <<>>
            ELSE LET m == MapOf(SubSeq(b, 1, Len(b) - 1)) last == b[Len(b)] IN
                 [x \in DOMAIN m \cup {last.n} |-> IF x = last.n THEN last.vs ELSE m[x]]

Side == [hdrs : Builds, status : {200, 201}, body : {"b1", "b2"}]

ExpectedEq(a, b) == a.status = b.status /\ a.body = b.body /\ MapOf(a.hdrs) = MapOf(b.hdrs)

VARIABLES a, b
Init == a \in Side /\ b \in Side /\ (a.status = 200 \/ b.status = 200) /\ (a.body = "b1" \/ b.body = "b1")
Next == UNCHANGED <<a, b>>
Spec == Init /\ [][Next]_<<a, b>>

Reflexive == (a = b) => ExpectedEq(a, b)
Emit == PrintT(<<"CASE", ToJson([kind |-> "valueeq", in |-> [a |-> a, b |-> b], out |-> [eq |-> ExpectedEq(a, b)], kf |-> <<>>])>>)
=============================================================================
