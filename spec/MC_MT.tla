------------------------------- MODULE MC_MT -------------------------------
(* CruxMT with the sequence of thread choices recorded, so that simulated behaviours can be      *)
(* printed as schedules and forced onto real threads (harness/src/sched.rs).                     *)
EXTENDS CruxMT, Json

VARIABLE sched
mvars == <<vars, sched>>

MInit == Init /\ sched = <<>>
MNext == \E t \in Threads : StepOf(t) /\ sched' = Append(sched, t)
MSpec == MInit /\ [][MNext]_mvars

EmitSched == AllDone => PrintT(<<"SCHED", ToJson(sched)>>)
=============================================================================
