------------------------------ MODULE Ind_Loop ------------------------------
(* QuiescentAtDone of ExecLoop.tla through an inductive invariant, for Apalache: for any number of steps, any     *)
(* number of waiting futures and any queue contents (the generated queue has up to 4 entries, the slab 3 keys). *)
(*   apalache-mc check --cinit=ConstInit --init=LInit   --inv=IndInv --length=0 Ind_Loop.tla    (base case)      *)
(*   apalache-mc check --cinit=ConstInit --init=IndInit --inv=IndInv --length=1 Ind_Loop.tla    (induction step) *)
EXTENDS ExecLoop, Apalache

ConstInit == Keys = {0, 1, 2}

\* what makes run_all's return safe: in a round that has done no work so far, a future can only be waiting in the
\* spawn queue while a task that is really there is being polled (whose verdict will count as work)
IndInv ==
  /\ pending >= 0 /\ slab \subseteq Keys /\ cur \in Keys \cup {NOKEY}
  /\ pc \in {"idle", "spawn", "ready"}
  /\ \A i \in DOMAIN rq : rq[i] \in Keys
  /\ (pc = "idle") => cur = NOKEY
  /\ (pc = "ready" /\ ~work /\ pending > 0) => (cur # NOKEY /\ cur \in slab)
  \* QuiescentAtDone: whenever Done is enabled the executor is quiet
  /\ (pc = "ready" /\ cur = NOKEY /\ rq = <<>> /\ ~work) => Quiet

IndInit ==
  /\ pending = Gen(1) /\ slab = Gen(3) /\ rq = Gen(4) /\ pc = Gen(1) /\ work = Gen(1) /\ cur = Gen(1)
  /\ IndInv

\* spawning and waking happen between two calls of run_all or while a task that is there is polled (one caller)
Env == pc = "idle" \/ (cur # NOKEY /\ cur \in slab)
Next ==
  \/ (Env /\ Spawn)
  \/ (Env /\ \E k \in Keys : Wake(k))
  \/ Begin \/ ToReady \/ Loop \/ Done
  \/ \E k \in Keys : Take(k) \/ Pop(k) \/ \E res \in {"missing", "suspended", "completed"} : Polled(k, res)
  \/ UNCHANGED lvars
=============================================================================
