--------------------------- MODULE Trace_Registry ---------------------------
(* Validates bridge traces (the same lines Trace_Core reads, with the registry listing replaced by its size   *)
(* and the stored arity attached to every effect) against Registry.tla.  The programs of these cases are flat: *)
(* every request is a one-shot whose continuation sends one event, so the event a response produces must come  *)
(* from the task that issued the request registered under the id -- RoutedById with a thousand entries alive.   *)
EXTENDS Registry, Json, IOUtils, TLC

Rec == ndJsonDeserialize(IOEnv.TRACE)
VARIABLES l, reg
vars == <<l, reg>>
Line == Rec[l]

TInit == l = 1 /\ reg = <<>> /\ TLCSet(1, 1)

Task(o) == <<o[1], o[2]>>

Steps ==
  /\ l <= Len(Rec) /\ l' = l + 1
  /\ \/ Line.e = "case" /\ reg' = <<>>
     \/ Line.e = "end" /\ Line.drop_ok /\ UNCHANGED reg
     \/ /\ Line.e = "event" /\ Line.res = "ok"
        /\ CanRegister(reg, Line.effs)
        /\ reg' = AfterRegister(reg, Line.effs)
        /\ Line.regn = Cardinality(DOMAIN reg')
     \/ /\ Line.e = "resolve"
        /\ Line.id \in DOMAIN reg
        /\ reg[Line.id].o = Line.o                       \* the id still names the request it was handed out for
        /\ Line.res \in ResumeResult(reg, Line.id)
        \* RoutedById: whatever the answer set in motion comes from the task that asked
        /\ \A i \in DOMAIN Line.log : Line.log[i].kind = "ev" => Task(Line.log[i].o) = Task(Line.o)
        /\ (Line.res = "ok" /\ reg[Line.id].kind = "once") => Len(Line.log) = 1
        /\ LET r1 == AfterResume(reg, Line.id, Line.res, TRUE) IN
           /\ CanRegister(r1, Line.effs)
           /\ reg' = AfterRegister(r1, Line.effs)
        /\ Line.regn = Cardinality(DOMAIN reg')

TSpec == TInit /\ [][Steps]_vars
Progress == IF l > TLCGet(1) THEN TLCSet(1, l) ELSE TRUE
Accepted ==
  LET n == TLCGet(1) IN
  IF n > Len(Rec) THEN TRUE ELSE PrintT(<<"REJECTED_AT", n, Rec[n]>>) /\ FALSE
=============================================================================
