------------------------------ MODULE TimeConv ------------------------------
(***************************************************************************)
(* C19: what converting instants and durations between crux_time's wire    *)
(* types (Duration: u64 nanoseconds; Instant: u64 seconds + u32 nanos) and  *)
(* the standard-library and chrono types must do, in exact integer         *)
(* arithmetic: the exact value where the target can hold it, an explicit   *)
(* rejection (an Err, or a panic where the API is infallible) where it      *)
(* cannot -- never a wrapped, truncated or silently normalised value.       *)
(*                                                                         *)
(* The numbers do not fit TLC's 32-bit integers; this module is checked    *)
(* with Apalache (unbounded integers): Ind_TimeConv.tla proves the round    *)
(* trips for every value, Ind_TimeRows.tla (generated) validates rows      *)
(* recorded from the real conversions against Expected below.              *)
(***************************************************************************)
EXTENDS Integers

U64MAX == 18446744073709551615
I64MAX == 9223372036854775807
U32MAX == 4294967295
NPS    == 1000000000          \* nanoseconds per second
\* chrono's DateTime<Utc>::MAX_UTC as a timestamp (checked against the crate by the row "chrono_max_ts")
DTMAX  == 8210266876799

\* a result: ok with up to two numbers, or rejected
\* @type: (Int, Int) => { ok: Bool, x: Int, y: Int };
Ok(x, y) == [ok |-> TRUE, x |-> x, y |-> y]
Rej == [ok |-> FALSE, x |-> 0, y |-> 0]

\* std::time::Duration(secs, sub) -> wire Duration
StdToWire(s, n) == IF s * NPS + n <= U64MAX THEN Ok(s * NPS + n, 0) ELSE Rej
\* wire Duration -> std::time::Duration: always representable
WireToStd(d) == Ok(d \div NPS, d % NPS)

FromMillis(m) == IF m * 1000000 <= U64MAX THEN Ok(m * 1000000, 0) ELSE Rej
FromSecs(s) == IF s * NPS <= U64MAX THEN Ok(s * NPS, 0) ELSE Rej

\* chrono TimeDelta(secs, sub) with secs possibly negative, total = secs * NPS + sub
DeltaTotal(s, n) == s * NPS + n
\* must: exact for 0 <= total <= I64MAX; rejected for total < 0 and total > U64MAX; in between (chrono cannot
\* hand out the nanoseconds as an i64) either is acceptable
DeltaToWireMust(s, n) ==
  LET t == DeltaTotal(s, n) IN
  IF t < 0 \/ t > U64MAX THEN Rej ELSE Ok(t, 0)
DeltaToWireMayReject(s, n) == DeltaTotal(s, n) > I64MAX

\* wire Duration -> TimeDelta (reported as whole seconds and sub-second nanoseconds)
WireToDeltaMust(d) == Ok(d \div NPS, d % NPS)
WireToDeltaMayReject(d) == d > I64MAX

InstantNew(s, n) == IF n < NPS THEN Ok(s, n) ELSE Rej
SysToInstant(s, n) == Ok(s, n)
\* SystemTime keeps i64 seconds on this platform
InstantToSys(s, n) == IF s <= I64MAX /\ n < NPS THEN Ok(s, n) ELSE Rej
InstantToDateTime(s, n) == IF s <= DTMAX /\ n < NPS THEN Ok(s, n) ELSE Rej
\* a DateTime before the epoch, or in a leap second (chrono represents it as nanos >= NPS), has no Instant
DateTimeToInstant(ts, n) == IF ts >= 0 /\ n < NPS THEN Ok(ts, n) ELSE Rej
\* the wire form itself: an Instant with nanos >= NPS is not a value
WireInstant(s, n) == IF n < NPS THEN Ok(s, n) ELSE Rej

\* what a recorded row must show
\* @type: ({ kind: Str, a: Int, b: Int, ok: Bool, x: Int, y: Int }) => Bool;
Conforms(r) ==
  LET got == [ok |-> r.ok, x |-> r.x, y |-> r.y] IN
  CASE r.kind = "dur_from_millis"     -> got = FromMillis(r.a)
    [] r.kind = "dur_from_secs"       -> got = FromSecs(r.a)
    [] r.kind = "std_to_wire_dur"     -> got = StdToWire(r.a, r.b)
    [] r.kind = "wire_to_std_dur"     -> got = WireToStd(r.a)
    [] r.kind = "delta_to_wire_dur"   -> got = DeltaToWireMust(r.a, r.b) \/ (DeltaToWireMayReject(r.a, r.b) /\ got = Rej)
    [] r.kind = "wire_to_delta"       -> got = WireToDeltaMust(r.a) \/ (WireToDeltaMayReject(r.a) /\ got = Rej)
    [] r.kind = "instant_new"         -> got = InstantNew(r.a, r.b)
    [] r.kind = "systime_to_instant"  -> got = SysToInstant(r.a, r.b)
    [] r.kind = "instant_to_systime"  -> got = InstantToSys(r.a, r.b)
    [] r.kind = "instant_to_datetime" -> got = InstantToDateTime(r.a, r.b)
    [] r.kind = "datetime_to_instant" -> got = DateTimeToInstant(r.a, r.b)
    [] r.kind = "wire_instant_deser"  -> got = WireInstant(r.a, r.b)
    [] r.kind = "chrono_max_ts"       -> got = Ok(DTMAX, 0)
    [] OTHER -> FALSE
=============================================================================
