SPECIFICATION TSpec
CONSTANT Sched = "any"
CONSTRAINT Progress
POSTCONDITION Accepted
CHECK_DEADLOCK FALSE
