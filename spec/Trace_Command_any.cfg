SPECIFICATION TSpec
CONSTANT Sched = "any"
CONSTANT KFS = {"D12"}
CONSTRAINT Progress
POSTCONDITION Accepted
CHECK_DEADLOCK FALSE
