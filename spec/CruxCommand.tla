---------------------------- MODULE CruxCommand ----------------------------
(***************************************************************************)
(* Semantics of crux_core::Command: tasks, shell requests, combinators,    *)
(* hosting of commands inside commands, abort, eviction.                   *)
(*                                                                         *)
(* Implementation-shaped: one action per linearisation point of            *)
(* crux_core/src/command/{mod,executor,stream,context,builder}.rs.         *)
(* A task poll is split into small steps (one per DSL instruction) that    *)
(* run atomically with respect to every other task (`run` names the task   *)
(* being polled); the only nondeterminism is which ready task is polled    *)
(* next and what the shell does.                                           *)
(*                                                                         *)
(* Programs are values of the JSON command language described in           *)
(* DESIGN.md 2.3; Instantiate below is the reference meaning ("Desugar")   *)
(* of the combinators and builder chains in terms of task scripts.         *)
(***************************************************************************)
EXTENDS Naturals, Integers, Sequences, FiniteSets, TLC

NONE == <<>>            \* "no task / no command / no request" (all keys are tuples)
ROOT == <<0>>           \* pseudo task hosting the outermost command
NREG == 4               \* registers per task
NSTR == 2               \* stream slots per task
NHND == 3               \* join-handle slots per task
NCH  == 2               \* task-to-task channel slots per task

CONSTANT Sched   \* "any": any ready task may be polled next (the property-level model)
                 \* "fifo": the queue discipline of the code (a refinement of "any"; linear-time validation)
CONSTANT KFS     \* set of named known deviations the model admits (DESIGN.md 2.6); {} = strict
KnownDev(d) == d \in KFS

VARIABLES
  cmds,     \* cmd key <<inst,id>> -> [host, aborted, alive, out, exec]
  tasks,    \* task key <<inst,tid>> -> task record (see NewTask)
  ready,    \* set of task keys woken and not polled since (union of all ready queues, as a set)
  run,      \* task key being polled right now, or NONE
  reqs,     \* request key <<inst,tid,seq>> -> request record (see NewReq)
  joinreg,  \* sequence of [w |-> waiter, k |-> target, g |-> "latest"|"stale"]: wakers parked on join
            \* handles, in registration order
  rq, sq    \* "fifo" only: per command, the ready queue and the spawn queue (sequences of task keys);
            \* ready is always the set of tasks in them

cvars == <<cmds, tasks, ready, run, reqs, joinreg, rq, sq>>

---------------------------------------------------------------------------
(* Small helpers *)

Range(s) == {s[i] : i \in DOMAIN s}
Has(r, f) == f \in DOMAIN r
Fld(r, f, d) == IF f \in DOMAIN r THEN r[f] ELSE d

ApplyF(f, v) == CASE f = "id"  -> v
                  [] f = "inc" -> v + 1
                  [] f = "dbl" -> 2 * v
                  [] OTHER     -> v

Inst(tk) == tk[1]

Src(T, s) == IF Has(s, "c") THEN s.c ELSE T.regs[s.r]

ZeroRegs == [i \in 1..NREG |-> 0]
NoStreams == [i \in 1..NSTR |-> [rid |-> NONE, tag |-> 0, val |-> 0, l |-> FALSE]]
NoHandles == [i \in 1..NHND |-> NONE]
NoChans == [i \in 1..NCH |-> NONE]

\* flatten_unordered: the outer stream has been polled (init) / has ended (odone); inner: the streams
\* opened so far, [rid, st, rrid] with st "new" (not polled yet) | "wait" (awaiting its stream) | "req"
\* (awaiting the then_request rrid) | "done"; fq: FuturesUnordered's ready-to-run queue (indices into
\* inner); phase/polled/len0: progress of the poll in flight
\* woken: the combinator's WOKEN state -- it handed out an item (or woke its task) and expects to be
\* polled again; until then its wakers only take notes, they do not wake the task
NoFlat == [init |-> FALSE, odone |-> FALSE, inner |-> <<>>, fq |-> <<>>, phase |-> "idle", polled |-> 0, len0 |-> 0,
           woken |-> FALSE]

\* legacy: the task was spawned through the capability API (CapabilityContext): its shell futures
\* are the shared-state ones of capability/shell_request.rs and shell_stream.rs
NewTaskL(cmd, code, regs, handles, noEvict, legacy) ==
  [cmd |-> cmd, code |-> code, pc |-> 1, regs |-> regs, st |-> "live", seq |-> 0, en |-> 0,
   streams |-> NoStreams, handles |-> handles, hosting |-> NONE, aborted |-> FALSE,
   ls |-> <<>>, yielded |-> FALSE, noEvict |-> noEvict, inPoll |-> FALSE, why |-> "", legacy |-> legacy,
   script |-> FALSE,     \* script: the future is an interpreted script of the harness (it carries a drop token)
   root |-> FALSE,       \* root: the task Command::new created -- it shares the command's abort flag
   chans |-> NoChans,    \* task-to-task channels this task's environment holds (keys into reqs)
   flat |-> NoFlat,      \* state of the task's flatten_unordered (StreamBuilder::then_stream), see ExecFlat
   flatGen |-> "none"]   \* which poll's waker the flatten_unordered holds: "none" | "stale" | "latest"

NewTask(cmd, code, regs, handles, noEvict) == NewTaskL(cmd, code, regs, handles, noEvict, FALSE)

\* exec: TRUE for the pseudo command that stands for the core's QueuingExecutor
\* wreg: the command's AtomicWaker holds a waker of its host (poll_next registers, a wake takes)
\* pass: (executor only) run_all alternates a pass over the spawn queue and a pass over the ready queue
\* armed: the abort flag has been seen by run_until_settled's entry check (it is only looked at on
\*        entry: a flag set by one of the command's own tasks lets the current settle finish first)
NewCmd(host) == [host |-> host, aborted |-> FALSE, alive |-> TRUE, out |-> {}, exec |-> FALSE,
                 wreg |-> host # ROOT, pass |-> "spawn", armed |-> FALSE]
Fifo == Sched = "fifo"
\* a command aborted before it exists in the model (held by a combinator, not started yet)
AbortStub == [host |-> NONE, aborted |-> TRUE, alive |-> FALSE, out |-> {}, exec |-> FALSE, wreg |-> FALSE,
              pass |-> "spawn", armed |-> TRUE]


\* kind: "never" | "once" | "many" ; kind0 is the kind the request was created with
NewReqL(kind, owner, tag, val, legacy) ==
  [kind |-> kind, kind0 |-> kind, owner |-> owner, tag |-> tag, val |-> val, legacy |-> legacy,
   held |-> FALSE, senderAlive |-> TRUE, recvAlive |-> (kind # "never"),
   reg |-> IF kind = "never" THEN "none" ELSE "latest", chan |-> <<>>, nres |-> 0,
   fl |-> -1]     \* >= 0: polled by the owner's flatten_unordered (0 the outer stream, i the i-th inner one):
                  \* its waker (reg = "flat") is a waker of the combinator, not of the task

NewReq(kind, owner, tag, val) == NewReqL(kind, owner, tag, val, FALSE)

\* A task-to-task channel (futures mpsc, unbounded) lives in the same table: chan is its queue, tx the
\* tasks that hold a sender (closed when empty), owner/reg the waker its receiving end holds (the one of
\* the last task that polled it Pending).  The shell never sees it.
NewChan(t) ==
  [kind |-> "chan", kind0 |-> "chan", owner |-> NONE, tag |-> 0, val |-> 0, legacy |-> FALSE,
   held |-> FALSE, senderAlive |-> FALSE, recvAlive |-> FALSE, reg |-> "none", chan |-> <<>>, nres |-> 0,
   fl |-> -1, tx |-> {t}]
IsChan(q) == q.kind0 = "chan"
\* a channel that belongs to the case, not to a command (a sender kept in an app's model): every task of every
\* command may send on it or wait for it, and it never closes (ROOT holds a sender)
GKey(g) == <<0, 0, 0 - g>>
NGCH == 2
\* the request table a case starts with: its case-wide channels, empty
NoReqs == [k \in {GKey(g) : g \in 1..NGCH} |-> NewChan(ROOT)]

\* n: position in the owning task's emission order (not observable in itself; fixes per-task order)
EffItem(rid, tag, val, n) == [kind |-> "eff", o |-> rid, tag |-> tag, val |-> val, n |-> n]
EvItem(o, tag, val, n)     == [kind |-> "ev",  o |-> o,   tag |-> tag, val |-> val, n |-> n]
Strip(i) == [kind |-> i.kind, o |-> i.o, tag |-> i.tag, val |-> i.val]

---------------------------------------------------------------------------
(* Reference semantics of combinators and builder chains ("Desugar").      *)
(* A command node becomes one command record plus its initial tasks.       *)

\* script of a builder chain: root req|stream, stages map|then_req, sink then_send(tag)
\* register 1 carries the value through the chain
RECURSIVE StageCode(_, _)
StageCode(stages, i) ==
  IF i > Len(stages) THEN <<>>
  ELSE LET s == stages[i] IN
       (IF s.k = "map" THEN << [op |-> "map", f |-> s.f, reg |-> 1] >>
        ELSE \* then_req: request built from f(value)
             << [op |-> "map", f |-> s.f, reg |-> 1],
                [op |-> "req", tag |-> s.tag, src |-> [r |-> 1], dst |-> 1] >>)
       \o StageCode(stages, i + 1)

\* position of the (single) then_stream stage, 0 if there is none
TSPos(stages) == IF \E i \in DOMAIN stages : stages[i].k = "then_stream"
                 THEN CHOOSE i \in DOMAIN stages : stages[i].k = "then_stream" ELSE 0
SubStages(stages, a, b) == [i \in 1..(b - a + 1) |-> stages[a + i - 1]]

ChainCode(c) ==
  LET k == TSPos(c.stages) n == Len(c.stages) IN
  IF c.root.k = "req" /\ k = 0
  THEN << [op |-> "req", tag |-> c.root.tag, src |-> [c |-> c.root.val], dst |-> 1] >>
       \o StageCode(c.stages, 1)
       \o << [op |-> "emit", tag |-> c.sink.tag, src |-> [r |-> 1]] >>
  ELSE IF c.root.k = "req"
  THEN \* RequestBuilder::then_stream: flat_map over the one output -- sequential: the stream is opened
       \* with the output and read to its end, each item going through the remaining stages
       LET ts   == c.stages[k]
           pre  == << [op |-> "req", tag |-> c.root.tag, src |-> [c |-> c.root.val], dst |-> 1] >>
                   \o StageCode(SubStages(c.stages, 1, k - 1), 1)
                   \o << [op |-> "map", f |-> ts.f, reg |-> 1],
                          [op |-> "open", tag |-> ts.tag, src |-> [r |-> 1], s |-> 1] >>
           body == (IF Fld(ts, "itag", 0) = 0 THEN <<>>
                    ELSE << [op |-> "req", tag |-> ts.itag, src |-> [r |-> 1], dst |-> 1] >>)
                   \o StageCode(SubStages(c.stages, k + 1, n), 1)
           lp   == Len(pre) + 1 IN
       pre \o << [op |-> "next", s |-> 1, dst |-> 1, else |-> lp + Len(body) + 3] >>
           \o body
           \o << [op |-> "emit", tag |-> c.sink.tag, src |-> [r |-> 1]],
                 [op |-> "goto", pc |-> lp] >>
  ELSE IF k = 0
  THEN \* stream root: one item at a time through the stages, then the sink; ends with the stream
       LET body == StageCode(c.stages, 1) IN
       << [op |-> "open", tag |-> c.root.tag, src |-> [c |-> c.root.val], s |-> 1],
          [op |-> "next", s |-> 1, dst |-> 1, else |-> Len(body) + 5] >>
       \o body
       \o << [op |-> "emit", tag |-> c.sink.tag, src |-> [r |-> 1]],
             [op |-> "goto", pc |-> 2] >>
  ELSE \* StreamBuilder::then_stream: map + flatten_unordered -- every item of the (mapped) root stream
       \* opens a stream of its own; all of them are read concurrently inside the one task
       LET ts   == c.stages[k]
           body == StageCode(SubStages(c.stages, k + 1, n), 1) IN
       << [op |-> "open", tag |-> c.root.tag, src |-> [c |-> c.root.val], s |-> 1],
          [op |-> "flat", s |-> 1, pre |-> [i \in 1..(k - 1) |-> c.stages[i].f], f |-> ts.f, tag |-> ts.tag,
           itag |-> Fld(ts, "itag", 0), dst |-> 1, else |-> Len(body) + 5] >>
       \o body
       \o << [op |-> "emit", tag |-> c.sink.tag, src |-> [r |-> 1]],
             [op |-> "goto", pc |-> 2] >>

HostI(c, fe, fv) == [op |-> "host", cmd |-> c, fe |-> fe, fv |-> fv]

\* the command a node denotes lives under this id (and = its left operand plus one more task)
RECURSIVE RootId(_)
RootId(c) == IF c.k = "and" THEN RootId(c.a) ELSE c.id

\* Instantiate returns [cmds |-> function, tasks |-> function, rq, sq] to be merged into the state;
\* q: the order in which the new command's first run_until_settled finds its tasks: the root task
\* (queued by Command::new), then the tasks added through Command::spawn by `all` / `and`
RECURSIVE Instantiate(_, _, _)
Instantiate(c, inst, host) ==
  LET ck == <<inst, RootId(c)>>
      one(code) == [cmds  |-> (ck :> NewCmd(host)),
                    tasks |-> (<<inst, c.tid>> :> [NewTask(ck, code, ZeroRegs, NoHandles, FALSE) EXCEPT !.root = TRUE]),
                    q |-> << <<inst, c.tid>> >>]
  IN CASE c.k = "done"   -> one(<<>>)
       [] c.k = "event"  -> one(<< [op |-> "emit", tag |-> c.tag, src |-> [c |-> c.val]] >>)
       [] c.k = "notify" -> one(<< [op |-> "notify", tag |-> c.tag, src |-> [c |-> c.val]] >>)
       [] c.k = "chain"  -> one(ChainCode(c))
       [] c.k = "then"   -> one(<< HostI(c.a, "id", "id"), HostI(c.b, "id", "id") >>)
       [] c.k = "map_effect" -> one(<< HostI(c.c, c.f, "id") >>)
       [] c.k = "map_event"  -> one(<< HostI(c.c, "id", c.f) >>)
       \* Command::from / into: map_effect(Into::into) inside, map_event(Into::into) outside
       [] c.k = "into"   -> one(<< HostI([k |-> "map_effect", id |-> c.id2, tid |-> c.tid2, f |-> "id", c |-> c.c],
                                         "id", "id") >>)
       [] c.k = "async"  -> LET r == one(c.code) IN
                            [r EXCEPT !.tasks = [k \in DOMAIN r.tasks |-> [r.tasks[k] EXCEPT !.script = TRUE]]]
       [] c.k = "all"    ->
            [cmds  |-> (ck :> NewCmd(host)),
             tasks |-> (<<inst, c.tid>> :> [NewTask(ck, <<>>, ZeroRegs, NoHandles, FALSE) EXCEPT !.root = TRUE])
                       @@ [tk \in {<<inst, c.cs[i].tid>> : i \in DOMAIN c.cs} |->
                            LET i == CHOOSE j \in DOMAIN c.cs : c.cs[j].tid = tk[2] IN
                            NewTask(ck, << HostI(c.cs[i].c, "id", "id") >>, ZeroRegs, NoHandles, FALSE)],
             q |-> << <<inst, c.tid>> >> \o [i \in DOMAIN c.cs |-> <<inst, c.cs[i].tid>>]]
       [] c.k = "and"    ->
            LET a == Instantiate(c.a, inst, host) IN
            [cmds  |-> a.cmds,
             tasks |-> a.tasks @@
                       (<<inst, c.tid>> :> NewTask(ck, << HostI(c.b, "id", "id") >>, ZeroRegs, NoHandles, FALSE)),
             q |-> Append(a.q, <<inst, c.tid>>)]

---------------------------------------------------------------------------
(* Structure: who hosts whom *)

HostOf(S, t) == S.cmds[S.tasks[t].cmd].host        \* task key or ROOT

RECURSIVE HostChain(_, _)
HostChain(S, t) ==      \* host tasks of t, innermost first, without ROOT
  LET h == HostOf(S, t) IN IF h = ROOT THEN {} ELSE {h} \cup HostChain(S, h)

RECURSIVE CmdAnc(_, _)
CmdAnc(S, c) ==         \* c and every command above it
  LET h == S.cmds[c].host IN IF h = ROOT THEN {c} ELSE {c} \cup CmdAnc(S, S.tasks[h].cmd)

Live(S) == {t \in DOMAIN S.tasks : S.tasks[t].st = "live"}
LiveIn(S, c) == {t \in Live(S) : S.tasks[t].cmd = c}

\* live tasks inside command c at any depth
SubtreeTasks(S, c) == {t \in Live(S) : c \in CmdAnc(S, S.tasks[t].cmd)}

\* run_task's `task.is_aborted()`: the task's own flag (JoinHandle::abort) -- which for the root task
\* of a command is the command's flag itself
\* (the flag is looked at when a poll of the task starts.  The poll of a hosting task spans the polls
\* of everything it hosts: inPoll is set when the child is started in this poll or when a task of the
\* hosted subtree is polled, and cleared when the host's own turn (Forward) ends)
TaskAborted(S, t) ==
  /\ S.tasks[t].aborted \/ (S.tasks[t].root /\ S.cmds[S.tasks[t].cmd].aborted)
  /\ ~S.tasks[t].inPoll

\* task t may not be polled: something above it has been aborted and will be reaped first
Blocked(S, t) ==
  \/ \E c \in CmdAnc(S, S.tasks[t].cmd) : S.cmds[c].aborted /\ S.cmds[c].armed
  \/ \E h \in HostChain(S, t) : TaskAborted(S, h)

---------------------------------------------------------------------------
(* Waking and removing tasks *)

\* a set of request keys as a sequence in a fixed order
RECURSIVE SetToSortSeq3(_)
SetToSortSeq3(X) ==
  IF X = {} THEN <<>>
  ELSE LET \* (channel keys: by slot first, the order in which a dropped environment lets go of them)
           m == CHOOSE x \in X : \A y \in X :
                  \/ x[3] > y[3]
                  \/ (x[3] = y[3] /\ (x[1] < y[1] \/ (x[1] = y[1] /\ x[2] <= y[2])))
       IN <<m>> \o SetToSortSeq3(X \ {m})

\* host tasks of t as a sequence, innermost first
RECURSIVE HostSeq(_, _)
HostSeq(S, t) == LET h == HostOf(S, t) IN IF h = ROOT THEN <<>> ELSE <<h>> \o HostSeq(S, h)

InQ(S, t) == LET c == S.tasks[t].cmd IN
             (\E i \in DOMAIN S.rq[c] : S.rq[c][i] = t) \/ (\E i \in DOMAIN S.sq[c] : S.sq[c][i] = t)

\* make one task ready (its id goes to the back of its command's ready queue unless already queued)
Enq1(S, t) ==
  IF ~Fifo THEN [S EXCEPT !.ready = @ \cup {t}]
  ELSE IF InQ(S, t) THEN S
  ELSE [S EXCEPT !.ready = @ \cup {t}, !.rq[S.tasks[t].cmd] = Append(@, t)]

RECURSIVE EnqSeq(_, _)
EnqSeq(S, ts) == IF ts = <<>> THEN S ELSE EnqSeq(Enq1(S, Head(ts)), Tail(ts))

\* CommandWaker::wake_by_ref of task t: its id is queued (a stale id of a task that is gone is
\* skipped later), then the waker its command holds for its host (registered by the host's last
\* poll_next, taken by the first wake) is woken, and so on upwards
RECURSIVE WakeTask(_, _)
WakeTask(S, t) ==
  LET S1 == IF S.tasks[t].st = "live" THEN Enq1(S, t) ELSE S
      c  == S.tasks[t].cmd
      h  == S.cmds[c].host IN
  IF S1.cmds[c].wreg /\ h # ROOT
  THEN WakeTask([S1 EXCEPT !.cmds[c].wreg = FALSE], h)
  ELSE S1

RECURSIVE Wake(_, _)
Wake(S, ws) ==
  IF ws = <<>> THEN S
  ELSE IF Head(ws) \in DOMAIN S.tasks THEN Wake(WakeTask(S, Head(ws)), Tail(ws))
  ELSE Wake(S, Tail(ws))

\* all tasks that disappear when the tasks in K are dropped (hosted commands go with their host)
RECURSIVE Closure(_, _)
Closure(S, K) ==
  LET sub == UNION {IF S.tasks[t].hosting = NONE THEN {} ELSE SubtreeTasks(S, S.tasks[t].hosting) : t \in K}
  IN IF sub \subseteq K THEN K ELSE Closure(S, K \cup sub)

\* Drop the futures of the tasks in K0 (and everything they host).
\* notify = TRUE: the tasks in K0 themselves completed / were evicted through run_until_settled,
\* which sets `finished` and wakes the join handles; tasks dropped wholesale are not announced.
Remove(S, K0, notify, why) ==
  LET K  == Closure(S, K0)
      jw == IF notify
            THEN LET js == SelectSeq(S.joinreg, LAMBDA x : x.k \in K0 /\ x.w \notin K) IN
                 [i \in DOMAIN js |-> js[i].w]
            ELSE <<>>
      T1 == [t \in DOMAIN S.tasks |->
               IF t \in K
               \* (what an evicted task was waiting for stays, for EvictionSound; everything else a task
               \* that is gone carried is let go of, so that long histories keep small states)
               THEN IF t \in K0 /\ why = "evicted"
                    THEN [S.tasks[t] EXCEPT !.st = "gone", !.why = why]
                    ELSE [S.tasks[t] EXCEPT !.st = "gone", !.why = IF t \in K0 THEN why ELSE "dropped",
                                            !.ls = <<>>, !.code = <<>>, !.pc = 1, !.flat = NoFlat,
                                            !.streams = NoStreams]
               ELSE S.tasks[t]]
      C1 == [c \in DOMAIN S.cmds |->
               IF S.cmds[c].host \in K THEN [S.cmds[c] EXCEPT !.alive = FALSE, !.out = {}] ELSE S.cmds[c]]
      R1 == [r \in DOMAIN S.reqs |->
               IF S.reqs[r].owner \in K
               \* (a capability-API future owns its waker; a flatten_unordered's wakers die with it)
               THEN [S.reqs[r] EXCEPT !.recvAlive = FALSE,
                                      !.reg = IF S.reqs[r].legacy \/ S.reqs[r].fl >= 0 THEN "none" ELSE @]
               ELSE S.reqs[r]]
      J1 == SelectSeq(S.joinreg, LAMBDA j : j.k \notin K /\ j.w \notin K)
      \* the dropped tasks' senders go; a channel that loses its last sender closes, which wakes its receiver
      closing == {r \in DOMAIN S.reqs : IsChan(S.reqs[r]) /\ S.reqs[r].tx # {} /\ S.reqs[r].tx \subseteq K}
      cw == LET ks == SetToSortSeq3({r \in closing : S.reqs[r].reg # "none" /\ S.reqs[r].owner \notin K}) IN
            [i \in DOMAIN ks |-> S.reqs[ks[i]].owner]
      R2 == [r \in DOMAIN R1 |->
               IF IsChan(R1[r])
               THEN [R1[r] EXCEPT !.tx = @ \ K, !.reg = IF r \in closing THEN "none" ELSE @]
               ELSE R1[r]]
      S1 == [S EXCEPT !.tasks = T1, !.cmds = C1, !.reqs = R2, !.joinreg = J1,
                      !.ready = @ \ K,
                      !.rq = [c \in DOMAIN @ |-> SelectSeq(@[c], LAMBDA t : t \notin K)],
                      !.sq = [c \in DOMAIN @ |-> SelectSeq(@[c], LAMBDA t : t \notin K)]]
  IN Wake(S1, jw \o cw)

---------------------------------------------------------------------------
(* Leaves: the things a task can wait on *)

\* leaves of the blocking instruction I, uniformly
LeavesOf(I) ==
  CASE I.op = "req"   -> << [k |-> "req", tag |-> I.tag, src |-> I.src, l |-> Fld(I, "l", FALSE)] >>
    [] I.op = "next"  -> << [k |-> "next", s |-> I.s] >>
    [] I.op = "joinh" -> << [k |-> "joinh", h |-> I.h] >>
    [] I.op = "recv"  -> << [k |-> "recv", c |-> I.c] >>
    [] I.op = "grecv" -> << [k |-> "grecv", g |-> I.g] >>
    [] OTHER          -> I.leaves        \* join / select

ModeOf(I) == IF I.op = "select" THEN "any" ELSE "all"

IsWait(I) == I.op \in {"req", "next", "joinh", "recv", "grecv", "join", "select"}

\* number of inline request leaves strictly before position i
RECURSIVE ReqsBefore(_, _)
ReqsBefore(L, i) == IF i <= 1 THEN 0
                    ELSE ReqsBefore(L, i - 1) + (IF L[i-1].k = "req" THEN 1 ELSE 0)

\* leaf states created when the instruction is first reached:
\* inline requests get their stamp now (the request object is built now, sent at first poll)
InitLeaves(t, T, L) ==
  [i \in DOMAIN L |->
     [rid  |-> CASE L[i].k = "req"  -> <<t[1], t[2], T.seq + ReqsBefore(L, i)>>
                 [] L[i].k = "next" -> T.streams[L[i].s].rid
                 [] L[i].k = "recv" -> T.chans[L[i].c]
                 [] L[i].k = "grecv" -> GKey(L[i].g)
                 [] OTHER           -> NONE,
      done |-> FALSE, val |-> 0]]

\* Is leaf i ready when polled in state S (before this poll changes anything)?
LeafReady(S, T, L, ls, i) ==
  CASE L[i].k = "joinh" -> S.tasks[T.handles[L[i].h]].st = "gone"
    [] L[i].k = "req"   -> ls[i].rid \in DOMAIN S.reqs /\ S.reqs[ls[i].rid].chan # <<>>
    [] L[i].k = "next"  -> /\ ls[i].rid \in DOMAIN S.reqs
                           /\ \/ S.reqs[ls[i].rid].chan # <<>>
                              \/ ~S.reqs[ls[i].rid].senderAlive   \* closed and empty: yields None
    [] L[i].k \in {"recv", "grecv"} -> S.reqs[ls[i].rid].chan # <<>> \/ S.reqs[ls[i].rid].tx = {}
LeafVal(S, L, ls, i) ==
  IF L[i].k = "joinh" THEN 0
  ELSE IF S.reqs[ls[i].rid].chan # <<>> THEN Head(S.reqs[ls[i].rid].chan) ELSE 0   \* 0 = None

---------------------------------------------------------------------------
(* One poll step of task t = run.  Returns [S, oc] with oc \in              *)
(*   "cont" (keep running), "pending", "finished", "host" (child started).  *)

\* new command records join the table; an abort requested before the command started sticks
MergeCmds(n, old) ==
  [c \in DOMAIN n \cup DOMAIN old |->
     IF c \in DOMAIN n THEN [n[c] EXCEPT !.aborted = (c \in DOMAIN old /\ old[c].aborted),
                                         !.armed = (c \in DOMAIN old /\ old[c].aborted)]
     ELSE old[c]]

\* a set of task keys as a sequence in a fixed order
RECURSIVE SetToSortSeq(_)
SetToSortSeq(X) ==
  IF X = {} THEN <<>>
  ELSE LET m == CHOOSE x \in X : \A y \in X : (x[1] < y[1]) \/ (x[1] = y[1] /\ x[2] <= y[2])
       IN <<m>> \o SetToSortSeq(X \ {m})

\* the outermost command (the core's executor under a Core host)
TopCmd(S) == CHOOSE c \in DOMAIN S.cmds : S.cmds[c].host = ROOT /\ S.cmds[c].alive

AddOut(S, c, items) == [S EXCEPT !.cmds[c].out = @ \cup items]

ExecWait(S, t, I) ==
  LET T    == S.tasks[t]
      L    == LeavesOf(I)
      mode == ModeOf(I)
      first == T.ls = <<>>
      ls0  == IF first THEN InitLeaves(t, T, L) ELSE T.ls
      nreq == IF first THEN ReqsBefore(L, Len(L) + 1) ELSE 0
      rdy(i) == LeafReady(S, T, L, ls0, i)
      cand == {i \in DOMAIN L : ~ls0[i].done /\ rdy(i)}
      win  == IF mode = "any" /\ cand # {} THEN CHOOSE i \in cand : \A j \in cand : i <= j ELSE 0
      polled(i) == /\ ~ls0[i].done
                   /\ (mode = "all" \/ win = 0 \/ i <= win)
      \* requests sent by this poll (first poll of an inline request or of a stream)
      newR == {i \in DOMAIN L : polled(i) /\ L[i].k \in {"req", "next"} /\ ls0[i].rid \notin DOMAIN S.reqs}
      \* l: the leaf is a future of the capability API (CapabilityContext), possibly inside a Command
      \* task: its effect goes straight to the core's channel, it is not woken when its request is
      \* dropped, and it keeps its waker in its own state
      leafL(i) == T.legacy \/ (IF L[i].k = "req" THEN Fld(L[i], "l", FALSE) ELSE T.streams[L[i].s].l)
      newReq(i) == IF L[i].k = "req"
                   THEN NewReqL("once", t, L[i].tag, Src(T, L[i].src), leafL(i))
                   ELSE NewReqL("many", t, T.streams[L[i].s].tag, T.streams[L[i].s].val, leafL(i))
      item(i) == EffItem(ls0[i].rid, newReq(i).tag, newReq(i).val, T.en + Cardinality({j \in newR : j < i}))
      newItems == {item(i) : i \in {j \in newR : ~leafL(j) \/ T.legacy}}
      topItems == {item(i) : i \in {j \in newR : leafL(j) /\ ~T.legacy}}
      ridsNew == {ls0[i].rid : i \in newR}
      idxOf(r) == CHOOSE i \in DOMAIN L : ls0[i].rid = r /\ L[i].k \in {"req", "next"}
      \* existing requests touched by this poll
      R1 == [r \in DOMAIN S.reqs \cup ridsNew |->
              IF r \in ridsNew THEN newReq(idxOf(r))
              ELSE IF \E i \in DOMAIN L : polled(i) /\ L[i].k \in {"req", "next", "recv", "grecv"} /\ ls0[i].rid = r
                   THEN LET q == S.reqs[r] IN
                        IF q.chan # <<>>
                        THEN [q EXCEPT !.chan = Tail(@),
                                       !.recvAlive = IF q.kind0 = "once" THEN FALSE ELSE @]
                        \* a channel's receiving end keeps the waker of whoever polled it last
                        ELSE IF IsChan(q)
                        THEN (IF q.tx # {} THEN [q EXCEPT !.reg = "latest", !.owner = t] ELSE q)
                        ELSE IF q.senderAlive \/ (q.legacy /\ q.kind0 = "once")
                             THEN [q EXCEPT !.reg = "latest"]
                        \* closed and empty: a one-shot stays pending without a waker; a capability-API
                        \* stream ends (None) and leaves the waker of an earlier poll where it was
                        ELSE q
                   ELSE S.reqs[r]]
      \* wakers parked on join handles by this poll
      newJ == {T.handles[L[i].h] : i \in {j \in DOMAIN L : polled(j) /\ L[j].k = "joinh" /\ ~rdy(j)}}
      oldJ == {S.joinreg[i].k : i \in {j \in DOMAIN S.joinreg : S.joinreg[j].w = t}}
      addJ == SetToSortSeq(newJ \ oldJ)
      J1 == [i \in DOMAIN S.joinreg |->
               IF S.joinreg[i].w = t /\ S.joinreg[i].k \in newJ
               THEN [S.joinreg[i] EXCEPT !.g = "latest"] ELSE S.joinreg[i]]
            \o [i \in DOMAIN addJ |-> [w |-> t, k |-> addJ[i], g |-> "latest"]]
      ls1 == [i \in DOMAIN L |->
               IF polled(i) /\ rdy(i) THEN [ls0[i] EXCEPT !.done = TRUE, !.val = LeafVal(S, L, ls0, i)]
               ELSE ls0[i]]
      allDone == \A i \in DOMAIN L : ls1[i].done
      complete == IF mode = "all" THEN allDone ELSE win # 0
      \* a select drops the futures it did not pick: inline requests lose their receiver
      R2 == IF mode = "any" /\ win # 0
            THEN [r \in DOMAIN R1 |->
                    IF \E i \in DOMAIN L : i # win /\ L[i].k = "req" /\ ls0[i].rid = r
                    THEN [R1[r] EXCEPT !.recvAlive = FALSE,
                                       \* (a capability-API future owns its waker: dropped with it)
                                       !.reg = IF R1[r].legacy THEN "none" ELSE @]
                    ELSE R1[r]]
            ELSE R1
      \* register writes on completion
      dsts == Fld(I, "dst", <<>>)
      regs1 == IF ~complete THEN T.regs
               ELSE IF mode = "any"
                    THEN [r \in 1..NREG |->
                            IF r = I.dst THEN ls1[win].val
                            ELSE IF r = I.idx THEN win ELSE T.regs[r]]
                    ELSE IF I.op \in {"req", "next", "recv", "grecv"}
                         THEN [T.regs EXCEPT ![I.dst] = ls1[1].val]
                         ELSE IF I.op = "joinh" THEN T.regs
                         ELSE [r \in 1..NREG |->
                                 IF \E i \in DOMAIN dsts : dsts[i] = r
                                 THEN ls1[CHOOSE i \in DOMAIN dsts : dsts[i] = r].val
                                 ELSE T.regs[r]]
      \* a stream that ended sends the single `next` to its else branch
      ended == I.op \in {"next", "recv"} /\ complete /\ ls1[1].val = 0
      pc1 == IF ~complete THEN T.pc ELSE IF ended THEN I.else ELSE T.pc + 1
      T1 == [T EXCEPT !.ls = IF complete THEN <<>> ELSE ls1,
                      !.regs = regs1, !.pc = pc1, !.seq = @ + nreq, !.en = @ + Cardinality(newR)]
      S1 == [S EXCEPT !.tasks[t] = T1, !.joinreg = J1]
      S2 == [S1 EXCEPT !.reqs = R2]
      S3 == AddOut(S2, T.cmd, newItems)
  IN [S |-> IF topItems = {} THEN S3 ELSE AddOut(S3, TopCmd(S3), topItems),
      oc |-> IF complete THEN "cont" ELSE "pending"]

\* A waker that outlived its task carries the slab key of that task (see Resolve below)
RECURSIVE GoneLevels(_, _)
GoneLevels(S, t) ==
  LET c  == S.tasks[t].cmd
      h  == S.cmds[c].host
      me == IF S.tasks[t].st = "gone" THEN {c} ELSE {} IN
  IF S.cmds[c].wreg /\ h # ROOT THEN me \cup GoneLevels(S, h) ELSE me

AliasCands(S, r) ==
  IF S.reqs[r].reg = "none" \/ S.reqs[r].fl >= 0 THEN {}
  ELSE {u \in Live(S) : S.tasks[u].cmd \in GoneLevels(S, S.reqs[r].owner)}

WakeOwner(S, r, al) ==
  IF S.reqs[r].reg = "none" THEN S
  ELSE LET i  == S.reqs[r].fl
           t  == S.reqs[r].owner
           \* a waker of an inner stream of flatten_unordered puts that stream's future on the
           \* ready-to-run queue (unless it is there already) before it wakes the task
           S0 == IF i > 0 /\ ~(\E j \in DOMAIN S.tasks[t].flat.fq : S.tasks[t].flat.fq[j] = i)
                 THEN [S EXCEPT !.tasks[t].flat.fq = Append(@, i)] ELSE S
           S1 == IF i >= 0 /\ S.tasks[t].flat.woken THEN [S0 EXCEPT !.reqs[r].reg = "none"]
                 ELSE Wake([S0 EXCEPT !.reqs[r].reg = "none"], <<t>>) IN
       IF al = NONE THEN S1 ELSE Enq1(S1, al)

---------------------------------------------------------------------------
(* flatten_unordered (StreamBuilder::then_stream = map + flatten_unordered(None)), one poll of it   *)
(* in steps: first the outer stream is drained (every item opens an inner stream, stamped now and  *)
(* sent when it is first polled), then the inner futures on the ready-to-run queue are polled one  *)
(* by one -- in queue order ("fifo": FuturesUnordered as it is) or in any order ("any": what the    *)
(* property leaves open) -- until one yields an item or the queue is empty.  The combinator polls   *)
(* its streams with wakers of its own, which forward to the waker it was last polled with.         *)
RECURSIVE ApplyAll(_, _)
ApplyAll(fs, x) == IF fs = <<>> THEN x ELSE ApplyAll(Tail(fs), ApplyF(Head(fs), x))

RECURSIVE DrainOuter(_, _, _, _)
DrainOuter(S, t, I, r) ==
  IF S.reqs[r].chan = <<>> THEN S
  ELSE LET T == S.tasks[t]
           v == ApplyF(I.f, ApplyAll(I.pre, Head(S.reqs[r].chan)))
           i == Len(T.flat.inner) + 1 IN
       DrainOuter([S EXCEPT !.reqs[r].chan = Tail(@),
                            !.tasks[t].flat.inner = Append(@, [rid |-> <<t[1], t[2], T.seq>>, st |-> "new",
                                                                rrid |-> NONE, val |-> v]),
                            !.tasks[t].flat.fq = Append(@, i),
                            !.tasks[t].seq = @ + 1], t, I, r)

FlatLive(F) == Cardinality({i \in DOMAIN F.inner : F.inner[i].st # "done"})

\* positions of the ready-to-run queue the next inner poll may take
FlatChoices(S, t) ==
  LET T == S.tasks[t] IN
  IF T.pc <= Len(T.code) /\ T.code[T.pc].op = "flat" /\ T.flat.phase = "inner" /\ T.flat.fq # <<>>
  THEN (IF Fifo THEN {1} ELSE DOMAIN T.flat.fq)
  ELSE {1}

ExecFlat(S, t, I, ch) ==
  LET T == S.tasks[t]
      F == T.flat
      FlatReq(kind, tag, val, i) == [NewReq(kind, t, tag, val) EXCEPT !.fl = i, !.reg = "flat"]
      \* the flattened stream is over: the `else` branch
      ends(S1) == [S |-> [S1 EXCEPT !.tasks[t].pc = I.else, !.tasks[t].flat.phase = "idle"], oc |-> "cont"]
      \* Pending with cx.waker().wake_by_ref() (FlattenUnordered's force_wake)
      selfwake(S1) == [S |-> Enq1([S1 EXCEPT !.tasks[t].flat.phase = "idle", !.tasks[t].flat.woken = TRUE], t),
                       oc |-> "pending"]
  IN
  IF F.phase = "idle"
  THEN LET r  == T.streams[I.s].rid
           S0 == [S EXCEPT !.tasks[t].flatGen = "latest", !.tasks[t].flat.woken = FALSE]
           S1 == IF r \in DOMAIN S.reqs THEN S0
                 ELSE AddOut([S0 EXCEPT !.reqs = @ @@ (r :> FlatReq("many", T.streams[I.s].tag, T.streams[I.s].val, 0)),
                                        !.tasks[t].en = @ + 1],
                             T.cmd, {EffItem(r, T.streams[I.s].tag, T.streams[I.s].val, T.en)})
           S2 == DrainOuter(S1, t, I, r)
           od == ~S2.reqs[r].senderAlive
           live == FlatLive(S2.tasks[t].flat)
           S3 == [S2 EXCEPT !.reqs[r].reg = IF od THEN @ ELSE "flat",
                            !.reqs[r].recvAlive = IF od THEN FALSE ELSE @,
                            !.tasks[t].flat.odone = od]
       IN IF od /\ live = 0 THEN ends(S3)
          ELSE [S |-> [S3 EXCEPT !.tasks[t].flat.phase = "inner", !.tasks[t].flat.polled = 0,
                                 !.tasks[t].flat.len0 = live], oc |-> "cont"]
  ELSE IF F.fq = <<>>
  THEN [S |-> [S EXCEPT !.tasks[t].flat.phase = "idle"], oc |-> "pending"]
  ELSE
  LET i   == F.fq[ch]
      fq1 == SubSeq(F.fq, 1, ch - 1) \o SubSeq(F.fq, ch + 1, Len(F.fq))
      N   == F.inner[i]
      Sq  == [S EXCEPT !.tasks[t].flat.fq = fq1]
      \* the future polled returned Pending: FuturesUnordered gives up after a full round
      pend(S1) == IF F.polled + 1 = F.len0 THEN selfwake(S1)
                  ELSE [S |-> [S1 EXCEPT !.tasks[t].flat.polled = @ + 1], oc |-> "cont"]
      item(S1, v) == [S |-> [S1 EXCEPT !.tasks[t].flat.fq = Append(@, i), !.tasks[t].flat.phase = "idle",
                                       !.tasks[t].flat.woken = TRUE,
                                       !.tasks[t].regs[I.dst] = v, !.tasks[t].pc = @ + 1], oc |-> "cont"]
  IN
  CASE N.st = "new" ->
         pend(AddOut([Sq EXCEPT !.reqs = @ @@ (N.rid :> FlatReq("many", I.tag, N.val, i)),
                                !.tasks[t].flat.inner[i].st = "wait", !.tasks[t].en = @ + 1],
                     T.cmd, {EffItem(N.rid, I.tag, N.val, T.en)}))
    [] N.st = "wait" ->
         LET q == S.reqs[N.rid] IN
         IF q.chan # <<>>
         THEN LET y  == Head(q.chan)
                  S1 == [Sq EXCEPT !.reqs[N.rid].chan = Tail(@)] IN
              IF I.itag = 0 THEN item(S1, y)
              ELSE LET rr == <<t[1], t[2], T.seq>> IN
                   pend(AddOut([S1 EXCEPT !.reqs = @ @@ (rr :> FlatReq("once", I.itag, y, i)),
                                          !.tasks[t].flat.inner[i].st = "req",
                                          !.tasks[t].flat.inner[i].rrid = rr,
                                          !.tasks[t].seq = @ + 1, !.tasks[t].en = @ + 1],
                               T.cmd, {EffItem(rr, I.itag, y, T.en)}))
         ELSE IF ~q.senderAlive
         THEN \* this inner stream is over
              LET S1 == [Sq EXCEPT !.tasks[t].flat.inner[i].st = "done", !.reqs[N.rid].recvAlive = FALSE] IN
              IF F.odone /\ FlatLive(S1.tasks[t].flat) = 0 THEN ends(S1) ELSE selfwake(S1)
         ELSE pend([Sq EXCEPT !.reqs[N.rid].reg = "flat"])
    [] N.st = "req" ->
         LET q == S.reqs[N.rrid] IN
         IF q.chan # <<>>
         THEN item([Sq EXCEPT !.reqs[N.rrid].chan = <<>>, !.reqs[N.rrid].recvAlive = FALSE,
                              !.tasks[t].flat.inner[i].st = "wait"], Head(q.chan))
         ELSE IF q.senderAlive THEN pend([Sq EXCEPT !.reqs[N.rrid].reg = "flat"])
         ELSE pend(Sq)        \* the request was dropped: this inner stream is stuck for good
    [] OTHER -> pend(Sq)

ExecInstrC(S, t, ch) ==
  LET T == S.tasks[t] IN
  IF T.pc > Len(T.code) THEN [S |-> S, oc |-> "finished"]
  ELSE
  LET I == T.code[T.pc]
      adv(S1) == [S |-> [S1 EXCEPT !.tasks[t].pc = @ + 1], oc |-> "cont"]
  IN
  CASE I.op = "emit" ->
         adv(AddOut([S EXCEPT !.tasks[t].seq = @ + 1, !.tasks[t].en = @ + 1], T.cmd,
                    {EvItem(<<t[1], t[2], T.seq>>, I.tag, Src(T, I.src), T.en)}))
    [] I.op = "notify" ->
         LET rid == <<t[1], t[2], T.seq>> IN
         adv(AddOut([S EXCEPT !.tasks[t].seq = @ + 1, !.tasks[t].en = @ + 1,
                              !.reqs = @ @@ (rid :> NewReq("never", t, I.tag, Src(T, I.src)))],
                    T.cmd, {EffItem(rid, I.tag, Src(T, I.src), T.en)}))
    [] I.op = "map" -> adv([S EXCEPT !.tasks[t].regs[I.reg] = ApplyF(I.f, @)])
    [] I.op = "goto" -> [S |-> [S EXCEPT !.tasks[t].pc = I.pc], oc |-> "cont"]
    [] I.op = "open" ->
         adv([S EXCEPT !.tasks[t].streams[I.s] = [rid |-> <<t[1], t[2], T.seq>>, tag |-> I.tag, val |-> Src(T, I.src),
                                                  l |-> Fld(I, "l", FALSE)],
                       !.tasks[t].seq = @ + 1])
    [] I.op = "spawn" ->
         LET k == <<t[1], I.script.tid>>
             \* the child's environment is a clone of the parent's: it shares the channels and gets a
             \* sender of its own for every channel the parent can still send on
             mine == {T.chans[i] : i \in {j \in 1..NCH : T.chans[j] # NONE}}
             S1 == [S EXCEPT !.tasks = [@ EXCEPT ![t].handles[I.h] = k]
                                   @@ (k :> [NewTaskL(T.cmd, I.script.code, T.regs, T.handles, T.noEvict, T.legacy)
                                               EXCEPT !.script = TRUE, !.chans = T.chans]),
                             !.reqs = [r \in DOMAIN @ |->
                                         IF r \in mine /\ t \in @[r].tx THEN [@[r] EXCEPT !.tx = @ \cup {k}] ELSE @[r]],
                             !.ready = @ \cup {k}] IN
         adv(IF Fifo THEN [S1 EXCEPT !.sq[T.cmd] = Append(@, k)] ELSE S1)
    [] I.op = "abort" ->
         adv([S EXCEPT !.tasks[T.handles[I.h]].aborted = TRUE])
    [] I.op = "abortc" ->
         \* the task aborts a command through its AbortHandle (its own, an enclosing one or any other)
         LET ck == <<t[1], I.id>> IN
         adv([S EXCEPT !.cmds = IF ck \in DOMAIN @
                                 THEN [@ EXCEPT ![ck].aborted = TRUE,
                                                ![ck].armed = @ \/ ~(ck \in CmdAnc(S, T.cmd))]
                                 ELSE (ck :> AbortStub) @@ @])
    [] I.op \in {"trynext", "tryrecv"} ->
         \* next().now_or_never(): one poll with a waker that does nothing.  A stream's request is sent by
         \* its first poll whoever polls; a pending poll leaves the do-nothing waker behind in place of
         \* whatever was registered
         LET r     == IF I.op = "trynext" THEN T.streams[I.s].rid ELSE T.chans[I.c]
             first == I.op = "trynext" /\ r \notin DOMAIN S.reqs
             S0    == IF ~first THEN S
                      ELSE AddOut([S EXCEPT !.reqs = @ @@ (r :> NewReqL("many", t, T.streams[I.s].tag, T.streams[I.s].val,
                                                                          T.legacy \/ T.streams[I.s].l)),
                                            !.tasks[t].en = @ + 1],
                                  IF (T.streams[I.s].l /\ ~T.legacy) THEN TopCmd(S) ELSE T.cmd,
                                  {EffItem(r, T.streams[I.s].tag, T.streams[I.s].val, T.en)})
             q     == S0.reqs[r] IN
         IF q.chan # <<>>
         THEN adv([S0 EXCEPT !.reqs[r].chan = Tail(@), !.tasks[t].regs[I.dst] = Head(q.chan)])
         ELSE adv([S0 EXCEPT !.reqs[r].reg = IF (IsChan(q) /\ q.tx = {}) \/ (~IsChan(q) /\ ~q.senderAlive) THEN @ ELSE "none",
                             !.tasks[t].regs[I.dst] = 0])
    [] I.op = "chan" ->
         LET k == <<t[1], t[2], 0 - I.c>> IN
         adv([S EXCEPT !.reqs = (k :> NewChan(t)) @@ @, !.tasks[t].chans[I.c] = k])
    [] I.op = "send" ->
         LET k == T.chans[I.c]
             v == IF Src(T, I.src) = 0 THEN 1 ELSE Src(T, I.src) IN
         IF k = NONE \/ t \notin S.reqs[k].tx THEN adv(S)
         ELSE adv(WakeOwner([S EXCEPT !.reqs[k].chan = Append(@, v)], k, NONE))
    [] I.op = "gsend" ->
         LET v == IF Src(T, I.src) = 0 THEN 1 ELSE Src(T, I.src) IN
         adv(WakeOwner([S EXCEPT !.reqs[GKey(I.g)].chan = Append(@, v)], GKey(I.g), NONE))
    [] I.op = "closec" ->
         LET k == T.chans[I.c] IN
         IF k = NONE \/ t \notin S.reqs[k].tx THEN adv(S)
         ELSE LET S1 == [S EXCEPT !.reqs[k].tx = @ \ {t}] IN
              adv(IF S1.reqs[k].tx = {} THEN WakeOwner(S1, k, NONE) ELSE S1)
    [] I.op = "yield" ->
         IF T.yielded THEN adv([S EXCEPT !.tasks[t].yielded = FALSE])
         ELSE [S |-> Enq1([S EXCEPT !.tasks[t].yielded = TRUE], t), oc |-> "pending"]
    [] I.op = "host" ->
         LET n  == Instantiate(I.cmd, t[1], t)
             ck == <<t[1], RootId(I.cmd)>> IN
         \* the child runs inside this very poll: the host stays at the front of its queue
         [S |-> [S EXCEPT !.cmds = MergeCmds(n.cmds, @),
                          !.tasks = n.tasks @@ [@ EXCEPT ![t].hosting = ck, ![t].inPoll = TRUE],
                          !.ready = @ \cup DOMAIN n.tasks \cup {t},
                          !.rq = IF Fifo THEN (ck :> n.q) @@ [@ EXCEPT ![T.cmd] = <<t>> \o @] ELSE @,
                          !.sq = IF Fifo THEN (ck :> <<>>) @@ @ ELSE @],
          oc |-> "host"]
    [] I.op = "flat" -> ExecFlat(S, t, I, ch)
    [] IsWait(I) -> ExecWait(S, t, I)

ExecInstr(S, t) == ExecInstrC(S, t, 1)

\* does anything hold the waker of t's latest poll?  (Arc::strong_count(&arc_waker) >= 2)
HoldsLatest(S, t) ==
  \/ S.tasks[t].flatGen = "latest"      \* flatten_unordered keeps the waker it was last polled with
  \/ \E r \in DOMAIN S.reqs : S.reqs[r].owner = t /\ S.reqs[r].reg = "latest"
  \/ \E i \in DOMAIN S.joinreg : S.joinreg[i].w = t /\ S.joinreg[i].g = "latest"

\* A suspended task can never make progress again: what it waits for cannot become ready.
\* (A one-shot request whose Request object was dropped unresolved stays pending for ever; a stream
\* ends instead, and a join handle completes when its task goes.)
LeafDead(S, L, ls, i) ==
  /\ L[i].k = "req" /\ ls[i].rid \in DOMAIN S.reqs
  /\ ~S.reqs[ls[i].rid].senderAlive /\ S.reqs[ls[i].rid].chan = <<>>
WaitStuck(S, t) ==
  LET T == S.tasks[t] IN
  /\ T.pc <= Len(T.code) /\ IsWait(T.code[T.pc]) /\ T.ls # <<>>
  /\ LET I == T.code[T.pc] L == LeavesOf(I) IN
     IF ModeOf(I) = "all" THEN \E i \in DOMAIN L : ~T.ls[i].done /\ LeafDead(S, L, T.ls, i)
     ELSE \A i \in DOMAIN L : LeafDead(S, L, T.ls, i)

\* A task suspended in flatten_unordered that nothing can wake again: the outer stream is over and
\* every inner stream left waits on a then_request whose request the shell dropped
FlatStuck(S, t) ==
  LET T == S.tasks[t] IN
  /\ T.pc <= Len(T.code) /\ T.code[T.pc].op = "flat"
  /\ T.flat.odone /\ T.flat.fq = <<>>
  /\ \E i \in DOMAIN T.flat.inner : T.flat.inner[i].st # "done"
  /\ \A i \in DOMAIN T.flat.inner :
        \/ T.flat.inner[i].st = "done"
        \/ /\ T.flat.inner[i].st = "req"
           /\ ~S.reqs[T.flat.inner[i].rrid].senderAlive /\ S.reqs[T.flat.inner[i].rrid].chan = <<>>

Stuck(S, t) == WaitStuck(S, t) \/ FlatStuck(S, t)

\* the end of a poll that returned Pending: command/executor.rs run_task, after the poll.
\* keep: known deviation D12 -- a task stuck in flatten_unordered is never evicted, because the
\* combinator itself keeps a clone of the waker it was polled with; what the property asks for
\* (keep = FALSE) is that such a task goes like any other task nothing can wake
EndPendingK(S, t, keep) ==
  IF t \in S.ready THEN S                                   \* woke itself: stays ready, never evicted
  ELSE IF FlatStuck(S, t) THEN (IF keep THEN S ELSE Remove(S, {t}, TRUE, "evicted"))
  ELSE IF S.tasks[t].noEvict \/ HoldsLatest(S, t) THEN S    \* suspended
  ELSE Remove(S, {t}, TRUE, "evicted")                      \* evicted (TaskState::Cancelled)
EndPending(S, t) == EndPendingK(S, t, FALSE)
KeepChoices(S, t) == IF t \notin S.ready /\ FlatStuck(S, t) /\ KnownDev("D12") THEN {TRUE, FALSE} ELSE {FALSE}

---------------------------------------------------------------------------
(* The state as a record, so the semantic operators above can be pure *)

St == [cmds |-> cmds, tasks |-> tasks, ready |-> ready, reqs |-> reqs, joinreg |-> joinreg,
       rq |-> rq, sq |-> sq]

Put(S) == /\ cmds' = S.cmds /\ tasks' = S.tasks /\ ready' = S.ready
          /\ reqs' = S.reqs /\ joinreg' = S.joinreg /\ rq' = S.rq /\ sq' = S.sq

Init ==
  /\ cmds = <<>> /\ tasks = <<>> /\ ready = {} /\ run = NONE /\ reqs = NoReqs /\ joinreg = <<>>
  /\ rq = <<>> /\ sq = <<>>

\* The outermost command of program c is created by whoever hosts it (pseudo task ROOT)
Start(c, inst) ==
  /\ run = NONE
  /\ LET n == Instantiate(c, inst, ROOT)
         ck == <<inst, RootId(c)>> IN
     /\ cmds' = MergeCmds(n.cmds, cmds)
     /\ tasks' = n.tasks @@ tasks
     /\ ready' = ready \cup DOMAIN n.tasks
     /\ rq' = IF Fifo THEN (ck :> n.q) @@ rq ELSE rq
     /\ sq' = IF Fifo THEN (ck :> <<>>) @@ sq ELSE sq
  /\ UNCHANGED <<run, reqs, joinreg>>

\* poll generation: everything t registered in earlier polls now holds an old waker
Stale(S, t) ==
  [S EXCEPT !.tasks[t].flatGen = IF @ = "latest" THEN "stale" ELSE @,
            !.reqs = [r \in DOMAIN @ |-> IF @[r].owner = t /\ @[r].reg = "latest"
                                         THEN [@[r] EXCEPT !.reg = "stale"] ELSE @[r]],
            !.joinreg = [i \in DOMAIN @ |-> IF @[i].w = t THEN [@[i] EXCEPT !.g = "stale"] ELSE @[i]]]

\* command c is run by its host: the outermost one by every inspection call, a nested one when
\* its hosting task is polled
Scheduled(S, c) ==
  LET h == S.cmds[c].host IN
  IF h = ROOT THEN TRUE ELSE (h \in S.ready /\ \A u \in HostChain(S, h) : u \in S.ready)

\* run_until_settled on an aborted command (self.tasks.clear()) is due
CanReap(S, c) ==
  /\ S.cmds[c].alive /\ S.cmds[c].aborted /\ S.cmds[c].armed
  /\ LiveIn(S, c) # {}
  /\ \A a \in CmdAnc(S, c) \ {c} : ~(S.cmds[a].aborted /\ S.cmds[a].armed)
  /\ LET h == S.cmds[c].host IN IF h = ROOT THEN TRUE ELSE (~Blocked(S, h) /\ ~TaskAborted(S, h))
  /\ Scheduled(S, c)

(* "fifo": which step the code takes next.  Descend from the outermost command: a Command drains  *)
(* its ready queue in order and moves spawned tasks over when it is empty; the core's executor     *)
(* runs newly spawned tasks first; a hosting task at the head of its queue runs its child first.   *)
NoSel == [k |-> "none", c |-> NONE, t |-> NONE]
RECURSIVE Sel(_, _)
Sel(S, c) ==
  LET desc(t) ==
        IF S.tasks[t].hosting # NONE /\ ~TaskAborted(S, t)
        THEN LET r == Sel(S, S.tasks[t].hosting) IN
             IF r.k = "none" THEN [k |-> "task", c |-> c, t |-> t] ELSE r
        ELSE [k |-> "task", c |-> c, t |-> t]
  IN IF S.cmds[c].exec
     THEN IF S.cmds[c].pass = "spawn"
          THEN IF S.sq[c] # <<>> THEN desc(Head(S.sq[c]))
               ELSE IF S.rq[c] # <<>> THEN [k |-> "pass", c |-> c, t |-> NONE] ELSE NoSel
          ELSE IF S.rq[c] # <<>> THEN desc(Head(S.rq[c]))
               ELSE IF S.sq[c] # <<>> THEN [k |-> "pass", c |-> c, t |-> NONE] ELSE NoSel
     ELSE IF S.rq[c] # <<>> THEN desc(Head(S.rq[c]))
          ELSE IF S.sq[c] # <<>> THEN [k |-> "move", c |-> c, t |-> NONE] ELSE NoSel

\* a command aborted by one of its own tasks finishes the settle it is in; the flag bites at the next entry
CanArm(S, c) ==
  /\ S.cmds[c].alive /\ S.cmds[c].aborted /\ ~S.cmds[c].armed
  /\ LiveIn(S, c) # {}
  /\ SubtreeTasks(S, c) \cap S.ready = {}

ReapPending(S) == \E c \in DOMAIN S.cmds : CanReap(S, c) \/ CanArm(S, c)

Eligible(t) ==
  IF Fifo THEN ~ReapPending(St) /\ Sel(St, TopCmd(St)) = [k |-> "task", c |-> tasks[t].cmd, t |-> t]
  ELSE TRUE

PopHead(S, c) ==
  IF ~Fifo THEN S
  ELSE IF S.cmds[c].exec /\ S.cmds[c].pass = "spawn" THEN [S EXCEPT !.sq[c] = Tail(@)]
  ELSE [S EXCEPT !.rq[c] = Tail(@)]

\* spawn_new_tasks: everything spawned since moves to the back of the (empty) ready queue
MoveSpawned ==
  /\ Fifo /\ run = NONE
  /\ ~ReapPending(St)
  /\ cmds # <<>>
  /\ LET r == Sel(St, TopCmd(St)) IN
     /\ r.k = "move"
     /\ rq' = [rq EXCEPT ![r.c] = sq[r.c]]
     /\ sq' = [sq EXCEPT ![r.c] = <<>>]
  /\ UNCHANGED <<cmds, tasks, ready, run, reqs, joinreg>>

\* QueuingExecutor::run_all goes from one pass to the other when the queue of the current one is empty
SwitchPass ==
  /\ Fifo /\ run = NONE
  /\ ~ReapPending(St)
  /\ cmds # <<>>
  /\ LET r == Sel(St, TopCmd(St)) IN
     /\ r.k = "pass"
     /\ cmds' = [cmds EXCEPT ![r.c].pass = IF @ = "spawn" THEN "ready" ELSE "spawn"]
  /\ UNCHANGED <<tasks, ready, run, reqs, joinreg, rq, sq>>

RECURSIVE StaleAll(_, _)
StaleAll(S, hs) == IF hs = {} THEN S ELSE LET h == CHOOSE x \in hs : TRUE IN StaleAll(Stale(S, h), hs \ {h})

\* run_task picks a ready task of a command that is being run
PollBegin(t) ==
  /\ run = NONE
  /\ t \in ready /\ tasks[t].st = "live"
  /\ tasks[t].hosting = NONE
  /\ ~TaskAborted(St, t)
  /\ ~Blocked(St, t)
  /\ Eligible(t)
  /\ LET hs == {h \in HostChain(St, t) : ~tasks[h].inPoll}
         S1 == StaleAll(Stale(St, t), hs)
         S2 == [S1 EXCEPT !.tasks = [k \in DOMAIN @ |-> IF k \in hs THEN [@[k] EXCEPT !.inPoll = TRUE] ELSE @[k]],
                          !.ready = @ \ {t}] IN
     Put(PopHead(S2, tasks[t].cmd))
  /\ run' = t

\* a task aborted through its join handle completes without being polled (run_task: is_aborted)
ReapTask(t) ==
  /\ run = NONE
  /\ t \in ready /\ tasks[t].st = "live"
  /\ TaskAborted(St, t)
  /\ ~Blocked(St, t)
  /\ Eligible(t)
  /\ Put(Remove(St, {t}, TRUE, "aborted"))
  /\ UNCHANGED run

Step ==
  /\ run # NONE
  /\ \E ch \in FlatChoices(St, run) :
     LET r == ExecInstrC(St, run, ch) IN
     CASE r.oc = "cont"     -> Put(r.S) /\ UNCHANGED run
       [] r.oc = "host"     -> Put(r.S) /\ run' = NONE
       [] r.oc = "pending"  -> \E keep \in KeepChoices(r.S, run) : Put(EndPendingK(r.S, run, keep)) /\ run' = NONE
       [] r.oc = "finished" -> Put(Remove(r.S, {run}, TRUE, "finished")) /\ run' = NONE

ArmCmd(c) ==
  /\ run = NONE
  /\ CanArm(St, c)
  /\ cmds' = [cmds EXCEPT ![c].armed = TRUE]
  /\ UNCHANGED <<tasks, ready, run, reqs, joinreg, rq, sq>>

\* run_until_settled on an aborted command: self.tasks.clear()
ReapCmd(c) ==
  /\ run = NONE
  /\ CanReap(St, c)
  /\ Put(Remove(St, LiveIn(St, c), FALSE, "cmd_aborted"))
  /\ UNCHANGED run

MapItem(i, fe, fv) ==
  IF i.kind = "eff" THEN [i EXCEPT !.val = ApplyF(fe, @)] ELSE [i EXCEPT !.val = ApplyF(fv, @)]

\* The hosting task's turn: Command::poll_next after run_until_settled -- hand over every output
\* (events first, then effects: order is not modelled), finish when the child is done.
Forward(h) ==
  /\ run = NONE
  /\ h \in ready /\ tasks[h].st = "live"
  /\ tasks[h].hosting # NONE
  /\ ~TaskAborted(St, h)
  /\ ~Blocked(St, h)
  /\ Eligible(h)
  /\ LET c == tasks[h].hosting
         I == tasks[h].code[tasks[h].pc] IN
     /\ SubtreeTasks(St, c) \cap ready = {}
     /\ ~(cmds[c].aborted /\ LiveIn(St, c) # {})
     /\ LET \* a new poll of h, unless the child was started earlier in this very poll
            S0 == IF tasks[h].inPoll THEN St ELSE Stale(St, h)
            S1 == PopHead([S0 EXCEPT !.cmds[tasks[h].cmd].out = @ \cup {MapItem(i, I.fe, I.fv) : i \in cmds[c].out},
                                    !.cmds[c].out = {},
                                    !.cmds[c].wreg = TRUE,
                                    !.tasks[h].inPoll = FALSE,
                                    !.ready = @ \ {h}], tasks[h].cmd)
        IN IF LiveIn(St, c) = {}
           THEN /\ Put([S1 EXCEPT !.cmds[c].alive = FALSE,
                                  !.tasks[h].hosting = NONE, !.tasks[h].pc = @ + 1])
                /\ run' = h
           ELSE /\ Put(S1) /\ UNCHANGED run

\* Nothing is runnable: the call the shell made has run to quiescence
Quiescent ==
  /\ run = NONE
  /\ \A t \in ready : tasks[t].st = "live" => FALSE
  /\ ~ReapPending(St)

Internal ==
  \/ \E t \in ready : PollBegin(t) \/ ReapTask(t) \/ Forward(t)
  \/ Step
  \/ \E c \in DOMAIN cmds : ReapCmd(c) \/ ArmCmd(c)
  \/ MoveSpawned
  \/ SwitchPass

---------------------------------------------------------------------------
(* What the shell can do to a request it holds *)

ResolveResult(r) ==
  CASE reqs[r].kind = "never" -> "never"
    [] reqs[r].kind = "once"  -> "ok"
    [] reqs[r].kind = "many"  -> IF reqs[r].recvAlive THEN "ok" ELSE "finished"

\* sending a value / dropping the last sender wakes whatever waker the channel holds.
\* A waker that outlived its task carries the slab key of that task; the slot may since have been
\* given to another task of the same command (or executor), which is then polled spuriously.
\* Which task (if any) is unspecified: `al` is NONE or one live task of a command in which the walk
\* up the chain of parent wakers passed a task that is gone.
Resolve(r, v, al) ==
  /\ run = NONE
  /\ reqs[r].held
  /\ al = NONE \/ al \in AliasCands(St, r)
  /\ LET q == reqs[r] IN
     CASE q.kind = "never" -> al = NONE /\ UNCHANGED <<cmds, tasks, ready, reqs, joinreg, rq, sq>>
       [] q.kind = "once" ->
            \* FnOnce consumed: value sent if the receiver is still there, then the sender is dropped
            Put(WakeOwner([St EXCEPT !.reqs[r] = [q EXCEPT !.kind = "never", !.senderAlive = FALSE,
                                                           !.nres = @ + 1,
                                                           !.chan = IF q.recvAlive THEN <<v>> ELSE <<>>]], r, al))
       [] q.kind = "many" ->
            IF q.recvAlive
            THEN Put(WakeOwner([St EXCEPT !.reqs[r].chan = Append(@, v), !.reqs[r].nres = @ + 1], r, al))
            ELSE al = NONE /\ UNCHANGED <<cmds, tasks, ready, reqs, joinreg, rq, sq>>
  /\ UNCHANGED run

\* the possible spurious-wake choices for a shell action on request r
Aliases(r) == {NONE} \cup AliasCands(St, r)

\* the shell drops a Request it holds (typed API only)
DropReq(r, al) ==
  /\ run = NONE
  /\ reqs[r].held
  /\ al = NONE \/ al \in AliasCands(St, r)
  /\ LET S1 == [St EXCEPT !.reqs[r].held = FALSE, !.reqs[r].senderAlive = FALSE, !.reqs[r].kind = "never"] IN
     \* (the capability API's futures are not woken when their request is dropped)
     IF reqs[r].legacy THEN al = NONE /\ Put(S1) ELSE Put(WakeOwner(S1, r, al))
  /\ UNCHANGED run

\* AbortHandle::abort: sets the flag, wakes nobody.  A command that a combinator holds but has not
\* started yet (the second operand of `then`) can already be aborted: remembered in a stub.
AbortCmd(c) ==
  /\ run = NONE
  /\ cmds' = IF c \in DOMAIN cmds THEN [cmds EXCEPT ![c].aborted = TRUE, ![c].armed = TRUE]
            ELSE (c :> AbortStub) @@ cmds
  /\ UNCHANGED <<tasks, ready, run, reqs, joinreg, rq, sq>>

\* effects()/events() on the outermost command c: everything queued is handed over
MarkHeld(R, items) ==
  [r \in DOMAIN R |-> IF \E i \in items : i.kind = "eff" /\ i.o = r THEN [R[r] EXCEPT !.held = TRUE] ELSE R[r]]

Take(c) ==
  /\ Quiescent
  /\ cmds' = [cmds EXCEPT ![c].out = {}]
  /\ reqs' = MarkHeld(reqs, cmds[c].out)
  /\ UNCHANGED <<tasks, ready, run, joinreg, rq, sq>>

IsDone(c) == cmds[c].out = {} /\ LiveIn(St, c) = {}

\* Garbage (validators of long histories only): records of work that is over and that nothing in the
\* state -- nor the shell, nor `pinned` -- can refer to any more.  A task that is gone is kept while a live
\* task holds a join handle for it, while a request it owned can still be acted on (its stale waker walks up
\* the chain of hosts, which are kept as well), a request while its task lives or the shell holds it.
RECURSIVE CloseHosts(_, _)
CloseHosts(S, X) ==
  LET Y == X \cup ({S.cmds[S.tasks[t].cmd].host : t \in X} \cap DOMAIN S.tasks) IN
  IF Y = X THEN X ELSE CloseHosts(S, Y)
Compact(S, pinned) ==
  LET live == Live(S)
      KR == {r \in DOMAIN S.reqs :
               \/ S.reqs[r].held \/ r \in pinned \/ S.reqs[r].owner \in live
               \/ (IsChan(S.reqs[r]) /\ (ROOT \in S.reqs[r].tx \/ \E t \in live : \E i \in 1..NCH : S.tasks[t].chans[i] = r))}
      KT == CloseHosts(S, live
                          \cup ({S.tasks[t].handles[i] : t \in live, i \in 1..NHND} \cap DOMAIN S.tasks)
                          \cup ({S.reqs[r].owner : r \in KR} \cap DOMAIN S.tasks))
      KC == {c \in DOMAIN S.cmds :
               \/ S.cmds[c].alive \/ S.cmds[c].host = NONE
               \/ \E t \in KT : S.tasks[t].cmd = c
               \/ \E t \in live : S.tasks[t].hosting = c}
  IN [S EXCEPT !.tasks = [t \in KT |-> S.tasks[t]],
               !.reqs = [r \in KR |-> S.reqs[r]],
               !.cmds = [c \in KC |-> S.cmds[c]],
               !.rq = [c \in KC \cap DOMAIN S.rq |-> S.rq[c]],
               !.sq = [c \in KC \cap DOMAIN S.sq |-> S.sq[c]]]

\* C13: the script futures that may still exist (everything else must have been dropped): the
\* live script tasks, and the scripts of commands a combinator already holds but has not started
RECURSIVE AsyncTids(_)
AsyncTids(c) ==
  CASE c.k = "async" -> {c.tid}
    [] c.k \in {"then", "and"} -> AsyncTids(c.a) \cup AsyncTids(c.b)
    [] c.k = "all" -> UNION {AsyncTids(c.cs[i].c) : i \in DOMAIN c.cs}
    [] c.k \in {"map_effect", "map_event", "into"} -> AsyncTids(c.c)
    [] OTHER -> {}
PendingScripts ==
  UNION {LET T == tasks[t] IN
         UNION {{<<t[1], x>> : x \in AsyncTids(T.code[i].cmd)} :
                  i \in {j \in DOMAIN T.code : T.code[j].op = "host" /\ (j > T.pc \/ (j = T.pc /\ T.hosting = NONE))}}
         : t \in {u \in DOMAIN tasks : tasks[u].st = "live"}}
ScriptTasksAlive == {t \in DOMAIN tasks : tasks[t].st = "live" /\ tasks[t].script} \cup PendingScripts

\* C13: the operation values that may still exist (an upper bound: a tree that lets go of them earlier is
\* fine, one that keeps more is holding on to work that is over): one in every request the shell holds, one in every
\* request or notification a command carries that a combinator holds but has not started, one in every
\* stream a live task has made and not polled yet (the operation travels with the first poll)
RECURSIVE OpsIn(_)
RECURSIVE OpsInAll(_, _)
OpsInAll(cs, i) == IF i > Len(cs) THEN 0 ELSE OpsIn(cs[i].c) + OpsInAll(cs, i + 1)
OpsIn(c) ==
  CASE c.k \in {"chain", "notify"} -> 1
    [] c.k \in {"then", "and"} -> OpsIn(c.a) + OpsIn(c.b)
    [] c.k = "all" -> OpsInAll(c.cs, 1)
    [] c.k \in {"map_effect", "map_event", "into"} -> OpsIn(c.c)
    [] OTHER -> 0
RECURSIVE SumSeq(_)
SumSeq(q) == IF q = <<>> THEN 0 ELSE Head(q) + SumSeq(Tail(q))
TaskOps(t) ==
  LET T == tasks[t]
      pending(j) == T.code[j].op = "host" /\ (j > T.pc \/ (j = T.pc /\ T.hosting = NONE))
      unsent == Cardinality({i \in 1..NSTR : T.streams[i].rid # NONE /\ T.streams[i].rid \notin DOMAIN reqs})
      newInner == Cardinality({i \in DOMAIN T.flat.inner : T.flat.inner[i].st = "new"}) IN
  SumSeq([j \in DOMAIN T.code |-> IF pending(j) THEN OpsIn(T.code[j].cmd) ELSE 0]) + unsent + newInner
OpsAlive ==
  Cardinality({r \in DOMAIN reqs : reqs[r].held /\ ~IsChan(reqs[r])})
  + (LET ts == SetToSortSeq({t \in DOMAIN tasks : tasks[t].st = "live"}) IN SumSeq([i \in DOMAIN ts |-> TaskOps(ts[i])]))

=============================================================================
