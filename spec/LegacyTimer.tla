----------------------------- MODULE LegacyTimer -----------------------------
(***************************************************************************)
(* crux_time, legacy capability API: Time::notify_after(cb) -> TimerId and *)
(* Time::clear(id) (crux_time/src/lib.rs), hosted by Core.  The set of     *)
(* cleared ids is process-wide; a timer's future consults it when polled.  *)
(* Every behaviour (bounded) is printed with what each call must return    *)
(* and executed on the real capability (harness/src/time.rs, `ltime`).     *)
(***************************************************************************)
EXTENDS Naturals, Sequences, FiniteSets, TLC, Json, IOUtils

CONSTANT N
T == 1..N
MaxAct == atoi(IOEnv.MAXACT)

VARIABLES phase,    \* per timer: "none" | "waiting" | "elapsed" | "cleared"
          cleared,  \* ids in the process-wide set (strict model: only ids whose timer can still see them)
          leaked,   \* ids the code also keeps (known deviation D11): cleared after the timer had an outcome
          hist      \* sequence of [a, i, effs, evs, set, setkf]
vars == <<phase, cleared, leaked, hist>>

Init == phase = [i \in T |-> "none"] /\ cleared = {} /\ leaked = {} /\ hist = <<>>

Rec(a, i, effs, evs, c, l) ==
  hist' = Append(hist, [a |-> a, i |-> i, effs |-> effs, evs |-> evs, set |-> Cardinality(c), setkf |-> Cardinality(c \cup l)])

\* update calls notify_after: the timer's task is polled in the same call and sends its request
Start(i) ==
  /\ phase[i] = "none"
  /\ phase' = [phase EXCEPT ![i] = "waiting"]
  /\ UNCHANGED <<cleared, leaked>>
  /\ Rec("start", i, << [k |-> "start", i |-> i] >>, <<>>, cleared, leaked)

\* update calls notify_after and clear(id) at once: the id is in the set before the task's first
\* poll, which therefore reports Cleared without sending the request; the Clear notification goes out
StartAndClear(i) ==
  /\ phase[i] = "none"
  /\ phase' = [phase EXCEPT ![i] = "cleared"]
  /\ UNCHANGED <<cleared, leaked>>
  /\ Rec("start_clear", i, << [k |-> "clear", i |-> i] >>, << [i |-> i, o |-> "cleared"] >>, cleared, leaked)

\* update calls clear(id): the id joins the set, the shell is notified
Clear(i) ==
  /\ phase[i] # "none"
  /\ IF phase[i] = "waiting"
     THEN cleared' = cleared \cup {i} /\ UNCHANGED leaked
     ELSE UNCHANGED cleared /\ leaked' = leaked \cup {i}      \* nothing will ever look at it again
  /\ UNCHANGED phase
  /\ Rec("clear", i, << [k |-> "clear", i |-> i] >>, <<>>, cleared', leaked')

\* the shell answers the timer's request: the task runs, finds its id in the set or not
Fire(i) ==
  /\ phase[i] = "waiting"
  /\ LET o == IF i \in cleared THEN "cleared" ELSE "elapsed" IN
     /\ phase' = [phase EXCEPT ![i] = o]
     /\ cleared' = cleared \ {i}
     /\ UNCHANGED leaked
     /\ Rec("fire", i, <<>>, << [i |-> i, o |-> o] >>, cleared', leaked)

Next == /\ Len(hist) < MaxAct
        /\ \E i \in T : Start(i) \/ StartAndClear(i) \/ Clear(i) \/ Fire(i)
Spec == Init /\ [][Next]_vars

\* C18 / C13
AtMostOneOutcome == \A i \in T : Cardinality({k \in DOMAIN hist : \E e \in {hist[k].evs[j] : j \in DOMAIN hist[k].evs} : e.i = i}) <= 1
ClearedOnlyIfAppCleared ==
  \A i \in T : phase[i] = "cleared" => \E k \in DOMAIN hist : hist[k].i = i /\ hist[k].a \in {"clear", "start_clear"}
ElapsedOnlyIfAnswered == \A i \in T : phase[i] = "elapsed" => \E k \in DOMAIN hist : hist[k].i = i /\ hist[k].a = "fire"
ClearedSetDrains == (\A i \in T : phase[i] \in {"none", "elapsed", "cleared"}) => cleared = {}

Emit == (Len(hist) = MaxAct) => PrintT(<<"CASE", ToJson([kind |-> "ltimer", in |-> [n |-> N], out |-> hist, kf |-> <<>>])>>)
=============================================================================
