SPECIFICATION MSpec
CONSTANT Keys = {0, 1, 2}
CONSTANT MaxSteps = 14
CONSTANT MaxQueue = 4
INVARIANT TypeOK
INVARIANT NoLostWake
INVARIANT QuiescentWhenSettled
CHECK_DEADLOCK FALSE
