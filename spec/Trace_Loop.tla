----------------------------- MODULE Trace_Loop -----------------------------
(* Validates the events the recorder (cfg crux_verif) logs in QueuingExecutor against ExecLoop.tla: one   *)
(* case per executor (`xnew`).  The pass switches of run_all are not logged: ToReady and Loop are silent   *)
(* steps.  `xdone` carries what the code saw when run_all returned (spawn queue length, ready queue        *)
(* length, slab occupancy): they must be the model's, and the model must be able to return there.         *)
EXTENDS ExecLoop, Json, IOUtils, TLC

Rec == ndJsonDeserialize(IOEnv.TRACE)
VARIABLE l
vars == <<lvars, l>>
Line == Rec[l]

TInit == LInit /\ l = 1 /\ TLCSet(1, 1)
Ev(e) == l <= Len(Rec) /\ Line.e = e /\ l' = l + 1

Res(n) == CASE n = 0 -> "missing" [] n = 2 -> "suspended" [] n = 3 -> "completed" [] OTHER -> "unavailable"

Steps ==
  \/ Ev("xnew") /\ pending' = 0 /\ slab' = {} /\ rq' = <<>> /\ pc' = "idle" /\ work' = FALSE /\ cur' = NOKEY
  \/ Ev("xspawn")  /\ Spawn
  \/ Ev("xwake")   /\ Wake(Line.a)
  \/ Ev("xrun")    /\ Begin
  \/ Ev("xtake")   /\ Take(Line.a)
  \/ Ev("xpop")    /\ Pop(Line.a)
  \/ Ev("xpolled") /\ Res(Line.b) # "unavailable" /\ Polled(Line.a, Res(Line.b))
  \/ Ev("xdone")   /\ Line.a = pending /\ Line.b = Len(rq) /\ Line.d = Cardinality(slab) /\ Quiet /\ Done
  \* silent: the two pass switches
  \/ (ToReady \/ Loop) /\ UNCHANGED l

TNext == Steps
TSpec == TInit /\ [][TNext]_vars

Progress == IF l > TLCGet(1) THEN TLCSet(1, l) ELSE TRUE
Accepted ==
  LET n == TLCGet(1) IN
  IF n > Len(Rec) THEN TRUE ELSE PrintT(<<"REJECTED_AT", n, Rec[n]>>) /\ FALSE
=============================================================================
