----------------------------- MODULE Trace_Proto -----------------------------
(* Validates executor events recorded from the real crate (cfg crux_verif recorder, one case per    *)
(* Command instance, keys as recorded) against ExecProtocol.tla.  The recorder does not log a task  *)
(* that is dropped because its abort flag is set, nor a key that names no task: those two are the   *)
(* silent steps AbortedTask / Missing, taken between a `pop` and whatever comes next.               *)
EXTENDS ExecProtocol, Json, IOUtils, TLC

Rec == ndJsonDeserialize(IOEnv.TRACE)
VARIABLE l
vars == <<pvars, l>>
Line == Rec[l]

TInit == /\ l = 1 /\ tasks = {} /\ rq = <<>> /\ phase = "none" /\ cur = 0 /\ curGen = 0 /\ atTop = FALSE
         /\ wokeDuring = FALSE /\ pendingWake = {} /\ lens = <<0, 0>>
         /\ TLCSet(1, 1)

Ev(e) == l <= Len(Rec) /\ Line.e = e /\ l' = l + 1

\* a new case: whatever state the previous command instance was left in is forgotten
Case ==
  /\ Ev("new")
  /\ tasks' = {Line.a} /\ rq' = <<Line.a>> /\ phase' = "idle" /\ cur' = 0 /\ curGen' = 0 /\ atTop' = FALSE
  /\ wokeDuring' = FALSE /\ pendingWake' = {Line.a} /\ lens' = <<0, 0>>

Bit(n, b) == (n \div b) % 2 = 1

Steps ==
  \/ Case
  \/ Ev("settle")  /\ Settle(Line.a)
  \/ Ev("cleared") /\ Cleared(Line.a, Line.b)
  \/ Ev("spawn")   /\ Spawn(Line.a)
  \/ Ev("pop")     /\ Pop(Line.a)
  \/ Ev("poll")    /\ Poll(Line.a, Line.b)
  \/ Ev("wake")    /\ Wake(Line.a, Line.b)
  \/ Ev("polled")  /\ Polled(Line.a, Line.b = 1, Bit(Line.d, 2), Bit(Line.d, 1))
  \/ Ev("settled") /\ Settled(Line.a, Line.b, Line.d)
  \/ Ev("isdone")  /\ IsDone(Line.a = 1)
  \* silent steps: only while a popped key waits, and only when the next event is not its poll
  \/ /\ l <= Len(Rec) /\ ~(Line.e = "poll" /\ phase = "popped" /\ cur \in tasks /\ Line.a = cur)
     /\ (Missing \/ AbortedTask) /\ UNCHANGED l

\* the design-level invariants are required of every state of every recorded execution as well: a step
\* into a state that breaks one is not a step of the protocol (the trace is rejected there)
Inv == NoLostWake /\ QuiescentWhenSettled
TNext == Steps /\ Inv'
TSpec == TInit /\ [][TNext]_vars

Progress == IF l > TLCGet(1) THEN TLCSet(1, l) ELSE TRUE
Accepted ==
  LET n == TLCGet(1) IN
  IF n > Len(Rec) THEN TRUE ELSE PrintT(<<"REJECTED_AT", n, Rec[n]>>) /\ FALSE
=============================================================================
