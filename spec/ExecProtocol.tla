---------------------------- MODULE ExecProtocol ----------------------------
(***************************************************************************)
(* The protocol of one Command's executor (crux_core/src/command/          *)
(* executor.rs), independent of what its tasks do: slab of tasks, FIFO     *)
(* ready queue of slab keys (stale and duplicate keys allowed), the        *)
(* run_until_settled loop (spawn_new_tasks at the loop top, drain the      *)
(* ready queue, repeat until it is empty), run_task with the eviction      *)
(* test, lazy abort.  One action per recorded event of the cfg(crux_verif) *)
(* recorder, so that any execution of the real crate -- the repository's   *)
(* own tests, not only programs of the harness' command language -- can    *)
(* be validated against it (Trace_Proto.tla), and small enough to be       *)
(* model-checked against every environment (MC_Proto.tla).                 *)
(*                                                                         *)
(* The task bodies are the environment: when a poll returns, whether it    *)
(* returned Ready, whether a clone of its waker survived, who wakes whom   *)
(* and when, what is spawned, and when the command is aborted.             *)
(***************************************************************************)
EXTENDS Naturals, Sequences, FiniteSets

CONSTANT
  \* @type: Set(Int);
  Keys        \* slab keys

VARIABLES
  \* @type: Set(Int);
  tasks,       \* slab keys in use
  \* @type: Seq(Int);
  rq,          \* the ready queue: sequence of keys, oldest first
  \* @type: Str;
  phase,       \* "idle" | "run" (inside run_until_settled) | "popped" (a key taken, run_task entered) | "poll"
  \* @type: Int;
  cur,         \* the key taken from the queue / being polled
  \* @type: Bool;
  atTop,       \* at the top of the settle loop: spawn_new_tasks may run even if the queue is not empty
  \* @type: Bool;
  wokeDuring,  \* the task being polled has been woken since its poll began
  \* @type: Set(Int);
  pendingWake, \* keys woken and not polled (or removed) since: what "no wake-up is lost" is about
  \* @type: <<Int, Int>>;
  lens         \* <<effects, events>> queued when the last settle ended

pvars == <<tasks, rq, phase, cur, atTop, wokeDuring, pendingWake, lens>>

PInit(k) ==
  /\ tasks = {k} /\ rq = <<k>> /\ phase = "idle" /\ cur = 0 /\ atTop = FALSE
  /\ wokeDuring = FALSE /\ pendingWake = {k} /\ lens = <<0, 0>>

\* run_until_settled is entered; n: tasks.len() on entry
Settle(n) ==
  /\ phase = "idle"
  /\ n = Cardinality(tasks)
  /\ phase' = "run" /\ atTop' = TRUE
  /\ UNCHANGED <<tasks, rq, cur, wokeDuring, pendingWake, lens>>

\* the abort flag was set on entry: tasks.clear(), nothing is polled; queued outputs stay
Cleared(ne, nv) ==
  /\ phase = "run" /\ atTop
  /\ tasks' = {} /\ pendingWake' = {}
  /\ phase' = "idle" /\ atTop' = FALSE /\ lens' = <<ne, nv>>
  /\ UNCHANGED <<rq, cur, wokeDuring>>

\* spawn_new_tasks: only at the loop top, i.e. on entry or when the ready queue has been drained
Spawn(k) ==
  /\ phase = "run" /\ (atTop \/ rq = <<>>)
  /\ k \notin tasks
  /\ tasks' = tasks \cup {k}
  /\ rq' = Append(rq, k)
  /\ pendingWake' = pendingWake \cup {k}
  /\ atTop' = TRUE
  /\ UNCHANGED <<phase, cur, wokeDuring, lens>>

\* ready_queue.try_recv(): strictly first in, first out
Pop(k) ==
  /\ phase = "run" /\ rq # <<>> /\ Head(rq) = k
  /\ rq' = Tail(rq) /\ cur' = k /\ phase' = "popped" /\ atTop' = FALSE
  /\ UNCHANGED <<tasks, wokeDuring, pendingWake, lens>>

\* run_task: the key names no task (TaskState::Missing)
Missing ==
  /\ phase = "popped" /\ cur \notin tasks
  /\ phase' = "run"
  /\ UNCHANGED <<tasks, rq, cur, atTop, wokeDuring, pendingWake, lens>>

\* run_task: the task's abort flag is set -- it completes without being polled
AbortedTask ==
  /\ phase = "popped" /\ cur \in tasks
  /\ tasks' = tasks \ {cur} /\ pendingWake' = pendingWake \ {cur}
  /\ phase' = "run"
  /\ UNCHANGED <<rq, cur, atTop, wokeDuring, lens>>

Poll(k) ==
  /\ phase = "popped" /\ cur = k /\ k \in tasks
  /\ phase' = "poll" /\ wokeDuring' = FALSE
  /\ pendingWake' = pendingWake \ {k}
  /\ UNCHANGED <<tasks, rq, cur, atTop, lens>>

\* CommandWaker::wake_by_ref, at any time, by anybody who holds a waker (also a stale one)
Wake(k) ==
  /\ rq' = Append(rq, k)
  /\ wokeDuring' = (wokeDuring \/ (phase = "poll" /\ k = cur))
  /\ pendingWake' = IF k \in tasks THEN pendingWake \cup {k} ELSE pendingWake
  /\ UNCHANGED <<tasks, phase, cur, atTop, lens>>

\* the poll returned.  ready: Poll::Ready; lone: no clone of the poll's waker is left;
\* flag: what the code read from the waker's `woken` flag -- it must be the truth
Polled(k, ready, lone, flag) ==
  /\ phase = "poll" /\ cur = k
  /\ flag = wokeDuring
  /\ LET gone == ready \/ (lone /\ ~flag) IN      \* Completed, or Cancelled by the eviction test
     /\ tasks' = IF gone THEN tasks \ {k} ELSE tasks
     /\ pendingWake' = IF gone THEN pendingWake \ {k} ELSE pendingWake
  /\ phase' = "run"
  /\ UNCHANGED <<rq, cur, atTop, wokeDuring, lens>>

\* run_until_settled returns: the queue is empty; nt = tasks.len()
Settled(ne, nv, nt) ==
  /\ phase = "run" /\ rq = <<>>
  /\ nt = Cardinality(tasks)
  /\ phase' = "idle" /\ atTop' = FALSE /\ lens' = <<ne, nv>>
  /\ UNCHANGED <<tasks, rq, cur, wokeDuring, pendingWake>>

\* is_done() right after a settle
IsDone(v) ==
  /\ phase = "idle"
  /\ v = (lens = <<0, 0>> /\ tasks = {})
  /\ UNCHANGED pvars

---------------------------------------------------------------------------
(* What the protocol guarantees against every environment *)

\* C05 / C01: no wake-up is ever lost -- a live task that has been woken (or spawned) and not polled
\* since is in the ready queue or is the one run_task is about to poll
InQueue(k) == \E i \in DOMAIN rq : rq[i] = k
NoLostWake == \A k \in pendingWake : InQueue(k) \/ (phase = "popped" /\ cur = k)

\* ... and a settle ends only when it has answered all of them
QuiescentWhenSettled == (phase = "idle" /\ rq = <<>>) => pendingWake = {}

TypeOK ==
  /\ tasks \subseteq Keys /\ phase \in {"idle", "run", "popped", "poll"}
  /\ pendingWake \subseteq tasks
=============================================================================
