---------------------------- MODULE ExecProtocol ----------------------------
(***************************************************************************)
(* The protocol of one Command's executor (crux_core/src/command/          *)
(* executor.rs), independent of what its tasks do: slab of tasks, ready    *)
(* queue of slab keys (stale and duplicate keys allowed; order left open), *)
(* run_until_settled loop (spawn_new_tasks at the loop top, drain the      *)
(* ready queue, repeat until it is empty), run_task with the eviction      *)
(* test, lazy abort.  One action per recorded event of the cfg(crux_verif) *)
(* recorder, so that any execution of the real crate -- the repository's   *)
(* own tests, not only programs of the harness' command language -- can    *)
(* be validated against it (Trace_Proto.tla), and small enough to be       *)
(* model-checked against every environment (MC_Proto.tla).                 *)
(*                                                                         *)
(* The task bodies are the environment: when a poll returns, whether it    *)
(* returned Ready, whether a clone of its waker survived, who wakes whom   *)
(* and when, what is spawned, and when the command is aborted.             *)
(***************************************************************************)
EXTENDS Naturals, Sequences, FiniteSets

CONSTANT
  \* @type: Set(Int);
  Keys        \* slab keys

VARIABLES
  \* @type: Set(Int);
  tasks,       \* slab keys in use
  \* @type: Seq(Int);
  rq,          \* the ready queue: sequence of keys, oldest first
  \* @type: Str;
  phase,       \* "idle" | "run" (inside run_until_settled) | "popped" (a key taken, run_task entered) | "poll"
  \* @type: Int;
  cur,         \* the key taken from the queue / being polled
  \* @type: Bool;
  atTop,       \* at the top of the settle loop: spawn_new_tasks may run even if the queue is not empty
  \* @type: Int;
  curGen,      \* which waker the poll in flight was given (every poll makes a new one)
  \* @type: Bool;
  wokeDuring,  \* the task being polled has been woken through that waker since its poll began
  \* @type: Set(Int);
  pendingWake, \* keys woken and not polled (or removed) since: what "no wake-up is lost" is about
  \* @type: <<Int, Int>>;
  lens         \* <<effects, events>> queued when the last settle ended

pvars == <<tasks, rq, phase, cur, curGen, atTop, wokeDuring, pendingWake, lens>>

PInit(k) ==
  /\ tasks = {k} /\ rq = <<k>> /\ phase = "idle" /\ cur = 0 /\ curGen = 0 /\ atTop = FALSE
  /\ wokeDuring = FALSE /\ pendingWake = {k} /\ lens = <<0, 0>>

\* run_until_settled is entered; n: tasks.len() on entry
Settle(n) ==
  /\ phase = "idle"
  /\ n = Cardinality(tasks)
  /\ phase' = "run" /\ atTop' = TRUE
  /\ UNCHANGED <<tasks, rq, cur, curGen, wokeDuring, pendingWake, lens>>

\* the abort flag was set on entry: tasks.clear(), nothing is polled; queued outputs stay
Cleared(ne, nv) ==
  /\ phase = "run" /\ atTop
  /\ tasks' = {} /\ pendingWake' = {}
  /\ phase' = "idle" /\ atTop' = FALSE /\ lens' = <<ne, nv>>
  /\ UNCHANGED <<rq, cur, curGen, wokeDuring>>

\* spawn_new_tasks (the code does it at the loop top, i.e. on entry or when the ready queue has been drained;
\* no property depends on when inside a settle new tasks are taken in, so the protocol does not either)
Spawn(k) ==
  /\ phase = "run"
  /\ k \notin tasks
  /\ tasks' = tasks \cup {k}
  /\ rq' = Append(rq, k)
  /\ pendingWake' = pendingWake \cup {k}
  /\ atTop' = TRUE
  /\ UNCHANGED <<phase, cur, curGen, wokeDuring, lens>>

\* ready_queue.try_recv(): one entry leaves the queue (the code takes the oldest; no property asks for an
\* order, so any one entry of k may be the one)
Pop(k) ==
  /\ phase = "run"
  /\ \E i \in DOMAIN rq :
       /\ rq[i] = k /\ \A j \in DOMAIN rq : (j < i) => rq[j] # k
       /\ rq' = SubSeq(rq, 1, i - 1) \o SubSeq(rq, i + 1, Len(rq))
  /\ cur' = k /\ phase' = "popped" /\ atTop' = FALSE
  /\ UNCHANGED <<tasks, curGen, wokeDuring, pendingWake, lens>>

\* run_task: the key names no task (TaskState::Missing)
Missing ==
  /\ phase = "popped" /\ cur \notin tasks
  /\ phase' = "run"
  /\ UNCHANGED <<tasks, rq, cur, curGen, atTop, wokeDuring, pendingWake, lens>>

\* run_task: the task's abort flag is set -- it completes without being polled
AbortedTask ==
  /\ phase = "popped" /\ cur \in tasks
  /\ tasks' = tasks \ {cur} /\ pendingWake' = pendingWake \ {cur}
  /\ phase' = "run"
  /\ UNCHANGED <<rq, cur, curGen, atTop, wokeDuring, lens>>

\* g: the waker made for this poll
Poll(k, g) ==
  /\ phase = "popped" /\ cur = k /\ k \in tasks
  /\ phase' = "poll" /\ wokeDuring' = FALSE /\ curGen' = g
  /\ pendingWake' = pendingWake \ {k}
  /\ UNCHANGED <<tasks, rq, cur, atTop, lens>>

\* CommandWaker::wake_by_ref, at any time, by anybody who holds a waker -- also one of an earlier poll (g tells
\* which): the key is queued all the same, but only the waker of the poll in flight raises that poll's flag
Wake(k, g) ==
  /\ rq' = Append(rq, k)
  /\ wokeDuring' = (wokeDuring \/ (phase = "poll" /\ k = cur /\ g = curGen))
  /\ pendingWake' = IF k \in tasks THEN pendingWake \cup {k} ELSE pendingWake
  /\ UNCHANGED <<tasks, phase, cur, curGen, atTop, lens>>

\* the poll returned.  ready: Poll::Ready; lone: no clone of the poll's waker is left;
\* flag: what the code read from the waker's `woken` flag -- it must be the truth
Polled(k, ready, lone, flag) ==
  /\ phase = "poll" /\ cur = k
  /\ flag = wokeDuring
  /\ LET gone == ready \/ (lone /\ ~flag) IN      \* Completed, or Cancelled by the eviction test
     /\ tasks' = IF gone THEN tasks \ {k} ELSE tasks
     /\ pendingWake' = IF gone THEN pendingWake \ {k} ELSE pendingWake
  /\ phase' = "run"
  /\ UNCHANGED <<rq, cur, curGen, atTop, wokeDuring, lens>>

\* run_until_settled returns: the queue is empty; nt = tasks.len()
Settled(ne, nv, nt) ==
  /\ phase = "run" /\ rq = <<>>
  /\ nt = Cardinality(tasks)
  /\ phase' = "idle" /\ atTop' = FALSE /\ lens' = <<ne, nv>>
  /\ UNCHANGED <<tasks, rq, cur, curGen, wokeDuring, pendingWake>>

\* is_done() right after a settle
IsDone(v) ==
  /\ phase = "idle"
  /\ v = (lens = <<0, 0>> /\ tasks = {})
  /\ UNCHANGED pvars

---------------------------------------------------------------------------
(* What the protocol guarantees against every environment *)

\* C05 / C01: no wake-up is ever lost -- a live task that has been woken (or spawned) and not polled
\* since is in the ready queue or is the one run_task is about to poll
InQueue(k) == \E i \in DOMAIN rq : rq[i] = k
NoLostWake == \A k \in pendingWake : InQueue(k) \/ (phase = "popped" /\ cur = k)

\* ... and a settle ends only when it has answered all of them
QuiescentWhenSettled == (phase = "idle" /\ rq = <<>>) => pendingWake = {}

TypeOK ==
  /\ tasks \subseteq Keys /\ phase \in {"idle", "run", "popped", "poll"}
  /\ pendingWake \subseteq tasks
=============================================================================
