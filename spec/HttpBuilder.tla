----------------------------- MODULE HttpBuilder -----------------------------
(***************************************************************************)
(* C14: the request builder as a state machine (crux_http command.rs /     *)
(* request_builder.rs / request.rs) and the single protocol request it     *)
(* must produce (protocol.rs into_protocol_request).                       *)
(***************************************************************************)
EXTENDS Naturals, Sequences, FiniteSets, TLC, Json

ManyNames == <<"x-t-00", "x-t-01", "x-t-02", "x-t-03", "x-t-04", "x-t-05", "x-t-06", "x-t-07", "x-t-08", "x-t-09", "x-t-10", "x-t-11", "x-t-12", "x-t-13", "x-t-14", "x-t-15", "x-t-16", "x-t-17", "x-t-18", "x-t-19", "x-t-20", "x-t-21", "x-t-22", "x-t-23", "x-t-24", "x-t-25", "x-t-26", "x-t-27", "x-t-28", "x-t-29", "x-t-30", "x-t-31", "x-t-32", "x-t-33", "x-t-34", "x-t-35">>

Ops ==
  {[op |-> "header", n |-> n, vs |-> vs] : n \in {"x-a", "X-B", "content-type"}, vs \in {<<"v1">>, <<"v2">>}}
  \cup {[op |-> "header", n |-> "x-a", vs |-> vs] :
          vs \in {<<"v1", "v2">>, <<"v1", "v1">>, <<"v1", "v1", "v2">>, <<"v2", "v1", "v2">>}}    \* multi-valued, with repeats
  \cup {[op |-> "many", ns |-> ManyNames]}        \* three dozen headers at once (orderings and small-size paths)
  \cup {[op |-> "ctype", m |-> "m_custom"]}
  \cup {[op |-> "body", k |-> k] : k \in {"string", "bytes", "json", "form", "empty"}}
  \cup {[op |-> "query", q |-> q] : q \in {"q1", "q2"}}

Method == {"GET", "POST", "PUT", "DELETE", "PATCH", "HEAD", "OPTIONS", "TRACE", "CONNECT"}
Url    == {"u_plain", "u_query", "u_fragment", "u_unicode", "u_percent", "u_port"}
Api    == {"command", "capability"}

\* header names are case-insensitive: the wire form is lower case
Norm(n) == IF n = "X-B" THEN "x-b" ELSE n

DefaultCT(k) ==
  CASE k = "string" -> "text/plain;charset=utf-8"
    [] k = "empty"  -> "text/plain;charset=utf-8"
    [] k = "bytes"  -> "application/octet-stream"
    [] k = "json"   -> "application/json"
    [] k = "form"   -> "application/x-www-form-urlencoded"

Start(m, u) == [method |-> m, url |-> u, query |-> "keep", headers |-> <<>>, body |-> "none"]

Put(h, n, vs) == [x \in DOMAIN h \cup {n} |-> IF x = n THEN vs ELSE h[x]]

Apply(st, o) ==
  CASE o.op = "header" -> [st EXCEPT !.headers = Put(@, Norm(o.n), o.vs)]      \* insert replaces
    [] o.op = "many"   -> [st EXCEPT !.headers = [x \in DOMAIN @ \cup {o.ns[i] : i \in DOMAIN o.ns} |->
                                                      IF \E i \in DOMAIN o.ns : o.ns[i] = x THEN <<"v1">> ELSE @[x]]]
    [] o.op = "ctype"  -> [st EXCEPT !.headers = Put(@, "content-type", <<o.m>>)]
    [] o.op = "body"   -> [st EXCEPT !.body = o.k,
                                     !.headers = IF "content-type" \in DOMAIN @ THEN @
                                                 ELSE Put(@, "content-type", <<DefaultCT(o.k)>>)]
    [] o.op = "query"  -> [st EXCEPT !.query = o.q]                             \* replaces the query

RECURSIVE Run(_, _)
Run(st, ops) == IF ops = <<>> THEN st ELSE Run(Apply(st, Head(ops)), Tail(ops))

\* the protocol request carries the header list as a set of (name, position, value): the order
\* across names is free
HdrList(st) == UNION {{<<n, i, st.headers[n][i]>> : i \in DOMAIN st.headers[n]} : n \in DOMAIN st.headers}

VARIABLES m, u, ops, api
vars == <<m, u, ops, api>>
Init ==
  /\ api \in Api
  /\ \/ /\ m = "POST" /\ u = "u_plain"
        /\ ops \in {<<>>} \cup {<<a>> : a \in Ops} \cup {<<a, b>> : a \in Ops, b \in Ops}
                   \cup {<<a, b, d>> : a \in Ops, b \in Ops, d \in {o \in Ops : o.op \in {"body", "header"}}}
     \/ /\ m \in Method /\ u \in Url
        /\ ops \in {<<>>} \cup {<<a>> : a \in {o \in Ops : o.op \in {"body", "query"}}}
Next == UNCHANGED vars
Spec == Init /\ [][Next]_vars

Final == Run(Start(m, u), ops)

\* exactly the documented content type when the app set none; the app's own always wins
ContentTypeRule ==
  LET st == Final IN
  /\ (st.body # "none") => "content-type" \in DOMAIN st.headers
  /\ (\A i \in DOMAIN ops : ops[i].op \notin {"ctype"} /\ ~(ops[i].op = "header" /\ ops[i].n = "content-type"))
       => (st.body = "none" \/ st.headers["content-type"] =
             <<DefaultCT((ops[CHOOSE i \in DOMAIN ops : ops[i].op = "body" /\ \A j \in DOMAIN ops : (j < i) => ops[j].op # "body"]).k)>>)

Emit ==
  LET st == Final IN
  PrintT(<<"CASE", ToJson([kind |-> "http_builder",
                           in |-> [method |-> m, url |-> u, ops |-> ops, api |-> api],
                           out |-> [method |-> st.method, url |-> st.url, query |-> st.query, body |-> st.body,
                                    headers |-> HdrList(st)],
                           kf |-> <<>>])>>)
=============================================================================
