------------------------------ MODULE Ind_Proto ------------------------------
(* NoLostWake as an inductive invariant of ExecProtocol.tla, for Apalache: it holds initially and every  *)
(* step of every environment preserves it -- for any number of steps (the ready queue is bounded by the  *)
(* size of the generated sequence, the slab by Keys).                                                    *)
(*   apalache-mc check --init=IndInit --inv=IndInv --length=1 Ind_Proto.tla    (induction step)           *)
(*   apalache-mc check --init=Init0  --inv=IndInv --length=0 Ind_Proto.tla     (base case)                *)
EXTENDS ExecProtocol, Apalache

ConstInit == Keys = {0, 1, 2}

IndInv ==
  /\ tasks \subseteq Keys /\ pendingWake \subseteq tasks
  /\ phase \in {"idle", "run", "popped", "poll"}
  /\ cur \in Keys
  /\ \A i \in DOMAIN rq : rq[i] \in Keys
  /\ NoLostWake
  /\ QuiescentWhenSettled

Init0 == PInit(0)

IndInit ==
  /\ tasks = Gen(3) /\ rq = Gen(4) /\ phase = Gen(1) /\ cur = Gen(1) /\ curGen = Gen(1) /\ atTop = Gen(1)
  /\ wokeDuring = Gen(1) /\ pendingWake = Gen(3) /\ lens = Gen(1)
  /\ IndInv

Next ==
  \/ \E n \in 0..3 : Settle(n)
  \/ Cleared(0, 0)
  \/ \E k \in Keys, g \in {0, 1} : Spawn(k) \/ Pop(k) \/ Poll(k, g) \/ Wake(k, g)
  \/ Missing \/ AbortedTask
  \/ \E k \in Keys, r \in BOOLEAN, lone \in BOOLEAN, f \in BOOLEAN : Polled(k, r, lone, f)
  \/ \E nt \in 0..3 : Settled(0, 0, nt)
  \/ UNCHANGED pvars
=============================================================================
