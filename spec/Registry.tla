------------------------------ MODULE Registry ------------------------------
(***************************************************************************)
(* The bridge's ResolveRegistry (crux_core/src/bridge/registry.rs) on its  *)
(* own, without the programs behind it: the projection of CruxCore.tla's   *)
(* Register / Respond on ids.  Small enough to be validated against        *)
(* histories with thousands of requests outstanding at once, which the     *)
(* full model cannot afford.  C09 / C02: an id handed out names one        *)
(* request for as long as that request can be answered, ids of live        *)
(* entries are pairwise distinct, and an answer sent under an id resumes   *)
(* the request registered under it -- whatever else happened to the        *)
(* registry in between.                                                    *)
(***************************************************************************)
EXTENDS Naturals, Sequences, FiniteSets

\* R : id -> [o, kind]; kind = arity of the entry as stored ("once", "many", "never")
Stored(e) == e.kind \in {"once", "many", "never"}       \* ("absent": the bridge keeps no entry for it)

\* BridgeWithSerializer::process: every effect of the batch is registered; ids of entries that are kept are
\* vacant before and pairwise distinct
CanRegister(R, es) ==
  LET st == {i \in DOMAIN es : Stored(es[i])} IN
  /\ \A i \in st : es[i].id \notin DOMAIN R
  /\ Cardinality({es[i].id : i \in st}) = Cardinality(st)
AfterRegister(R, es) ==
  LET st == {i \in DOMAIN es : Stored(es[i])} IN
  [id \in DOMAIN R \cup {es[i].id : i \in st} |->
     IF id \in DOMAIN R THEN R[id]
     ELSE LET i == CHOOSE j \in st : es[j].id = id IN [o |-> es[i].o, kind |-> es[i].kind]]

\* ResolveRegistry::resume: what the shell is told, by arity
ResumeResult(R, id) ==
  CASE R[id].kind = "once"  -> {"ok"}
    [] R[id].kind = "never" -> {"never"}
    [] R[id].kind = "many"  -> {"ok", "finished"}
\* ... and what is left: a one-shot entry is spent by its answer, a notification's by any answer; a stream entry
\* stays (D10: also when its consumer has ended)
AfterResume(R, id, res, keepFinished) ==
  IF R[id].kind \in {"once", "never"} \/ (res = "finished" /\ ~keepFinished)
  THEN [x \in DOMAIN R \ {id} |-> R[x]] ELSE R
=============================================================================
