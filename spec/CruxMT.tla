------------------------------- MODULE CruxMT -------------------------------
(***************************************************************************)
(* Interleaving-level model of concurrent callers into one core (C08).     *)
(*                                                                         *)
(* Scenario: the app subscribed to a stream (Command::stream_from_shell    *)
(* .then_send); the stream task T lives in command C, which is hosted by   *)
(* executor task H.  Each caller thread delivers one stream item through   *)
(* Bridge::handle_response (ResolveRegistry::resume under the registry     *)
(* mutex, then Core::process).  Every applied event makes `update` return  *)
(* Command::done(), which is spawned and run like any other command (task  *)
(* X: thread-local apart from the spawn queue).                            *)
(*                                                                         *)
(* One action = the code a thread executes from one schedule point         *)
(* (crux_core::verif::point, cfg crux_verif) to the next; pc values are    *)
(* the point names.  Library internals (futures mpsc, AtomicWaker,         *)
(* crossbeam, Mutex/RwLock sections that contain no point) are atomic, as  *)
(* they are under the forced schedules on the real threads.                *)
(*                                                                         *)
(* FixedOrder = FALSE: Command::run_task as written at the pinned commit   *)
(* (load `woken`, then read the strong count of the waker);                *)
(* FixedOrder = TRUE: the repaired order (count first, then the flag).     *)
(***************************************************************************)
EXTENDS Naturals, Sequences, FiniteSets, TLC

CONSTANTS Threads, FixedOrder,
          Scenario    \* "stream": one stream task, every caller delivers an item through the bridge (registry mutex)
                      \* "all":    one command with one sibling task (ctx.spawn) per caller, each a request followed by an event;
                      \*           caller t resolves the request
                      \*           of task t through Core::resolve (typed API, no registry)
MaxW == 3 * Cardinality(Threads) + 3
Tasks == IF Scenario = "stream" THEN {1} ELSE Threads
Target(t) == IF Scenario = "stream" THEN 1 ELSE t
Once == Scenario = "all"

VARIABLES
  reglock,     \* ResolveRegistry mutex (held from resume's lock until resume returns; "stream" only)
  chan,        \* per task: mpsc queue of its request
  recvWaker,   \* per task: AtomicWaker inside the mpsc channel: waker id or 0
  woken,       \* CommandWaker.woken, per waker id
  refs,        \* Arc strong count, per waker id
  wtask,       \* the task a waker id belongs to
  nextW,
  cmdReady,    \* command C's ready queue: sequence of task ids
  cmdWaker,    \* C.waker (AtomicWaker) holds H's TaskWaker
  execReady,   \* copies of H's id in the executor's ready queue
  spawnQ,      \* futures in the executor's spawn queue (each hosts a Command::done())
  slot,        \* executor slab slot of H: "present" | "taken" | "free"
  taskAlive,   \* per task: it is in C's slab (its mpsc receiver is alive)
  cmdEvents,   \* C's event channel
  coreEvents,  \* the core's capability_events channel
  log,         \* the app's model (applied events)
  th           \* per caller: [pc, w, myw, k, ready, cnt, work, res, xtask, ev]

vars == <<reglock, chan, recvWaker, woken, refs, wtask, nextW, cmdReady, cmdWaker, execReady, spawnQ,
          slot, taskAlive, cmdEvents, coreEvents, log, th>>

NT == Cardinality(Tasks)

Init ==
  /\ reglock = FALSE /\ chan = [k \in Tasks |-> <<>>]
  /\ recvWaker = [k \in Tasks |-> k]                       \* waker k: parked by task k's first poll
  /\ woken = [x \in 1..MaxW |-> FALSE]
  /\ refs = [x \in 1..MaxW |-> IF x <= NT THEN 1 ELSE 0]
  /\ wtask = [x \in 1..MaxW |-> IF x <= NT THEN x ELSE 0]
  /\ nextW = NT + 1 /\ cmdReady = <<>> /\ cmdWaker = TRUE /\ execReady = 0 /\ spawnQ = 0
  /\ slot = "present" /\ taskAlive = [k \in Tasks |-> TRUE]
  /\ cmdEvents = <<>> /\ coreEvents = <<>> /\ log = <<>>
  /\ th = [t \in Threads |-> [pc |-> "call_begin", w |-> 0, myw |-> 0, k |-> 0, ready |-> FALSE, cnt |-> 0,
                              work |-> FALSE, res |-> "ok", xtask |-> FALSE, ev |-> 0]]

Pc(t) == th[t].pc
Set(t, r) == th' = [th EXCEPT ![t] = r]
AnyAlive(al) == \E k \in Tasks : al[k]

---------------------------------------------------------------------------
(* Continuations shared by several segments.  Each returns a record of the *)
(* new values of the thread record and of the shared variables it touches. *)

\* QueuingExecutor::run_all, inner `while let Ok(id) = ready_queue.try_recv()` and what follows when
\* the queue is empty: next pass if some work was done, else run_all returns to Core::process,
\* which pops the next event (-> co_update) or leaves the loop (-> co_drain)
ContReady(T, er, ce) ==
  IF er > 0 THEN [T |-> [T EXCEPT !.pc = "ex_run"], er |-> er - 1, ce |-> ce]
  ELSE IF T.work THEN [T |-> [T EXCEPT !.pc = "ex_spawn", !.work = FALSE], er |-> er, ce |-> ce]
  ELSE IF ce # <<>> THEN [T |-> [T EXCEPT !.pc = "co_update", !.ev = Head(ce)], er |-> er, ce |-> Tail(ce)]
  ELSE [T |-> [T EXCEPT !.pc = "co_drain"], er |-> er, ce |-> ce]

\* spawn pass: `while let Ok(task) = spawn_queue.try_recv()`; when empty the ready pass starts
ContSpawn(T, sq) ==
  IF sq > 0 THEN [T |-> [T EXCEPT !.pc = "ex_poll", !.xtask = TRUE, !.work = TRUE], sq |-> sq - 1]
  ELSE [T |-> [T EXCEPT !.pc = "ex_ready"], sq |-> sq]

\* Command::poll_next of C after run_until_settled: one queued event is handed to the core (and
\* poll_next is entered again: register + settle), or the poll of H ends (Pending while C has tasks,
\* else the command is done and H completes)
ContOut(T, cev, ce, anyAlive) ==
  IF cev # <<>>
  THEN [T |-> [T EXCEPT !.pc = "cs_settle"], cev |-> Tail(cev), ce |-> Append(ce, Head(cev)), cw |-> TRUE]
  ELSE [T |-> [T EXCEPT !.pc = IF anyAlive THEN "ex_putback" ELSE "ex_remove"], cev |-> cev, ce |-> ce, cw |-> FALSE]

\* run_until_settled of C, inner `while let Ok(id) = ready_queue.try_recv()`
ContCmd(T, cr, cev, ce, anyAlive) ==
  IF cr # <<>> THEN [T |-> [T EXCEPT !.pc = "cr_task", !.k = Head(cr)], cr |-> Tail(cr), cev |-> cev, ce |-> ce, cw |-> FALSE]
  ELSE LET o == ContOut(T, cev, ce, anyAlive) IN [T |-> o.T, cr |-> cr, cev |-> o.cev, ce |-> o.ce, cw |-> o.cw]

---------------------------------------------------------------------------
(* Segments *)

\* "stream": ResolveRegistry::resume -- lock; deserialize; unbounded_send = push + take the parked waker.
\* "all": Request::resolve of the caller's own one-shot request -- the same without the registry.
CallBegin(t) ==
  /\ Pc(t) = "call_begin" /\ (Once \/ ~reglock)
  /\ LET k == Target(t) IN
     IF ~taskAlive[k] /\ ~Once
     THEN /\ Set(t, [th[t] EXCEPT !.pc = "call_end", !.res = "finished"])
          /\ UNCHANGED <<reglock, chan, recvWaker>>
     ELSE /\ chan' = IF taskAlive[k] THEN [chan EXCEPT ![k] = Append(@, t)] ELSE chan
          /\ recvWaker' = [recvWaker EXCEPT ![k] = 0]
          /\ IF recvWaker[k] = 0
             THEN /\ Set(t, [th[t] EXCEPT !.pc = "co_process"]) /\ UNCHANGED reglock
             ELSE /\ Set(t, [th[t] EXCEPT !.pc = "cw_send", !.w = recvWaker[k]])
                  /\ reglock' = IF Once THEN reglock ELSE TRUE
  /\ UNCHANGED <<woken, refs, wtask, nextW, cmdReady, cmdWaker, execReady, spawnQ, slot, taskAlive,
                 cmdEvents, coreEvents, log>>

\* CommandWaker::wake_by_ref, step by step
CwSend(t) ==
  /\ Pc(t) = "cw_send"
  /\ cmdReady' = Append(cmdReady, wtask[th[t].w])
  /\ Set(t, [th[t] EXCEPT !.pc = "cw_woken"])
  /\ UNCHANGED <<reglock, chan, recvWaker, woken, refs, wtask, nextW, cmdWaker, execReady, spawnQ, slot,
                 taskAlive, cmdEvents, coreEvents, log>>

CwWoken(t) ==
  /\ Pc(t) = "cw_woken"
  /\ woken' = [woken EXCEPT ![th[t].w] = TRUE]
  /\ Set(t, [th[t] EXCEPT !.pc = "cw_parent"])
  /\ UNCHANGED <<reglock, chan, recvWaker, refs, wtask, nextW, cmdReady, cmdWaker, execReady, spawnQ, slot,
                 taskAlive, cmdEvents, coreEvents, log>>

CwParent(t) ==
  /\ Pc(t) = "cw_parent"
  /\ IF cmdWaker THEN cmdWaker' = FALSE /\ execReady' = execReady + 1
     ELSE UNCHANGED <<cmdWaker, execReady>>
  /\ Set(t, [th[t] EXCEPT !.pc = "cw_drop"])
  /\ UNCHANGED <<reglock, chan, recvWaker, woken, refs, wtask, nextW, cmdReady, spawnQ, slot, taskAlive,
                 cmdEvents, coreEvents, log>>

\* the waker clone taken from the channel is dropped; resume returns (unlock); Core::process starts
CwDrop(t) ==
  /\ Pc(t) = "cw_drop"
  /\ refs' = [refs EXCEPT ![th[t].w] = @ - 1]
  /\ reglock' = FALSE
  /\ Set(t, [th[t] EXCEPT !.pc = "co_process", !.w = 0])
  /\ UNCHANGED <<chan, recvWaker, woken, wtask, nextW, cmdReady, cmdWaker, execReady, spawnQ, slot,
                 taskAlive, cmdEvents, coreEvents, log>>

\* run_all: did_some_work = true; first iteration of the outer loop
CoProcess(t) ==
  /\ Pc(t) = "co_process"
  /\ Set(t, [th[t] EXCEPT !.pc = "ex_spawn", !.work = FALSE])
  /\ UNCHANGED <<reglock, chan, recvWaker, woken, refs, wtask, nextW, cmdReady, cmdWaker, execReady, spawnQ,
                 slot, taskAlive, cmdEvents, coreEvents, log>>

ExSpawn(t) ==
  /\ Pc(t) = "ex_spawn"
  /\ LET c == ContSpawn(th[t], spawnQ) IN Set(t, c.T) /\ spawnQ' = c.sq
  /\ UNCHANGED <<reglock, chan, recvWaker, woken, refs, wtask, nextW, cmdReady, cmdWaker, execReady, slot,
                 taskAlive, cmdEvents, coreEvents, log>>

ExReady(t) ==
  /\ Pc(t) = "ex_ready"
  /\ LET c == ContReady(th[t], execReady, coreEvents) IN
     Set(t, c.T) /\ execReady' = c.er /\ coreEvents' = c.ce
  /\ UNCHANGED <<reglock, chan, recvWaker, woken, refs, wtask, nextW, cmdReady, cmdWaker, spawnQ, slot,
                 taskAlive, cmdEvents, log>>

\* QueuingExecutor::run_task(H) up to the point after the slab lock is released
ExRun(t) ==
  /\ Pc(t) = "ex_run"
  /\ CASE slot = "free" ->      \* Missing
            LET c == ContReady(th[t], execReady, coreEvents) IN
            Set(t, c.T) /\ execReady' = c.er /\ coreEvents' = c.ce /\ UNCHANGED slot
       [] slot = "taken" ->     \* Unavailable: re-queued, the loop goes on
            LET c == ContReady(th[t], execReady + 1, coreEvents) IN
            Set(t, c.T) /\ execReady' = c.er /\ coreEvents' = c.ce /\ UNCHANGED slot
       [] slot = "present" ->
            /\ slot' = "taken"
            /\ Set(t, [th[t] EXCEPT !.pc = "ex_poll", !.xtask = FALSE])
            /\ UNCHANGED <<execReady, coreEvents>>
  /\ UNCHANGED <<reglock, chan, recvWaker, woken, refs, wtask, nextW, cmdReady, cmdWaker, spawnQ, taskAlive,
                 cmdEvents, log>>

\* poll of the executor task: CommandSpawner's loop -> Command::poll_next registers the waker
ExPoll(t) ==
  /\ Pc(t) = "ex_poll"
  /\ cmdWaker' = IF th[t].xtask THEN cmdWaker ELSE TRUE
  /\ Set(t, [th[t] EXCEPT !.pc = "cs_settle"])
  /\ UNCHANGED <<reglock, chan, recvWaker, woken, refs, wtask, nextW, cmdReady, execReady, spawnQ, slot,
                 taskAlive, cmdEvents, coreEvents, log>>

\* run_until_settled
CsSettle(t) ==
  /\ Pc(t) = "cs_settle"
  /\ IF th[t].xtask
     THEN /\ Set(t, [th[t] EXCEPT !.pc = "cr_task"])       \* the done() command's root task is ready
          /\ UNCHANGED <<cmdReady, cmdEvents, coreEvents, cmdWaker>>
     ELSE LET c == ContCmd(th[t], cmdReady, cmdEvents, coreEvents, AnyAlive(taskAlive)) IN
          /\ Set(t, c.T) /\ cmdReady' = c.cr /\ cmdEvents' = c.cev /\ coreEvents' = c.ce
          /\ cmdWaker' = IF c.cw THEN TRUE ELSE cmdWaker
  /\ UNCHANGED <<reglock, chan, recvWaker, woken, refs, wtask, nextW, execReady, spawnQ, slot, taskAlive, log>>

\* Command::run_task up to the poll: a fresh CommandWaker (arc_waker + the Waker made from it)
CrTask(t) ==
  /\ Pc(t) = "cr_task"
  /\ IF th[t].xtask
     THEN /\ Set(t, [th[t] EXCEPT !.pc = "ct_poll"])
          /\ UNCHANGED <<nextW, refs, wtask, cmdReady, cmdEvents, coreEvents, cmdWaker>>
     ELSE IF ~taskAlive[th[t].k]
          THEN LET c == ContCmd(th[t], cmdReady, cmdEvents, coreEvents, AnyAlive(taskAlive)) IN   \* Missing
               /\ Set(t, c.T) /\ cmdReady' = c.cr /\ cmdEvents' = c.cev /\ coreEvents' = c.ce
               /\ cmdWaker' = IF c.cw THEN TRUE ELSE cmdWaker
               /\ UNCHANGED <<nextW, refs, wtask>>
          ELSE /\ nextW' = nextW + 1
               /\ refs' = [refs EXCEPT ![nextW] = 2]
               /\ wtask' = [wtask EXCEPT ![nextW] = th[t].k]
               /\ Set(t, [th[t] EXCEPT !.pc = "ct_poll", !.myw = nextW])
               /\ UNCHANGED <<cmdReady, cmdEvents, coreEvents, cmdWaker>>
  /\ UNCHANGED <<reglock, chan, recvWaker, woken, execReady, spawnQ, slot, taskAlive, log>>

\* the poll of task k.  Stream task: every queued item becomes an event, the new waker is parked in
\* the channel (replacing the old one), Pending.  One-shot task: with the answer waiting it emits its
\* event and completes; otherwise it parks the new waker and stays pending.  Then `drop(waker)`.
CtPoll(t) ==
  /\ Pc(t) = "ct_poll"
  /\ IF th[t].xtask
     THEN UNCHANGED <<chan, cmdEvents, recvWaker, refs>> /\ Set(t, [th[t] EXCEPT !.pc = "ct_woken"])
     ELSE LET k == th[t].k
              completes == Once /\ chan[k] # <<>> IN
          /\ cmdEvents' = cmdEvents \o chan[k]
          /\ chan' = [chan EXCEPT ![k] = <<>>]
          /\ IF completes
             THEN /\ UNCHANGED recvWaker
                  /\ refs' = [refs EXCEPT ![th[t].myw] = @ - 1]            \* only `drop(waker)`
                  /\ Set(t, [th[t] EXCEPT !.pc = "ct_woken", !.res = "completed"])
             ELSE /\ recvWaker' = [recvWaker EXCEPT ![k] = th[t].myw]
                  /\ refs' = [x \in 1..MaxW |-> IF x = recvWaker[k] /\ x # th[t].myw THEN refs[x] - 1 ELSE refs[x]]
                  /\ Set(t, [th[t] EXCEPT !.pc = "ct_woken"])
  /\ UNCHANGED <<reglock, woken, wtask, nextW, cmdReady, cmdWaker, execReady, spawnQ, slot, taskAlive,
                 coreEvents, log>>

\* first read of the eviction check
CtWoken(t) ==
  /\ Pc(t) = "ct_woken"
  /\ IF th[t].xtask THEN Set(t, [th[t] EXCEPT !.pc = "ct_count"])
     ELSE IF FixedOrder THEN Set(t, [th[t] EXCEPT !.pc = "ct_count", !.cnt = refs[th[t].myw]])
     ELSE Set(t, [th[t] EXCEPT !.pc = "ct_count", !.ready = woken[th[t].myw]])
  /\ UNCHANGED <<reglock, chan, recvWaker, woken, refs, wtask, nextW, cmdReady, cmdWaker, execReady, spawnQ,
                 slot, taskAlive, cmdEvents, coreEvents, log>>

\* second read, the decision, and the rest of run_until_settled's inner loop
CtCount(t) ==
  /\ Pc(t) = "ct_count"
  /\ IF th[t].xtask
     THEN \* the done() task completed; its command is done; the executor task completes
          /\ Set(t, [th[t] EXCEPT !.pc = "ex_remove"])
          /\ UNCHANGED <<refs, taskAlive, cmdReady, cmdEvents, coreEvents, cmdWaker, chan>>
     ELSE LET k == th[t].k
              completed == th[t].res = "completed"
              ready == IF FixedOrder THEN woken[th[t].myw] ELSE th[t].ready
              cnt   == IF FixedOrder THEN th[t].cnt ELSE refs[th[t].myw]
              evict == ~completed /\ ~ready /\ cnt < 2
              al    == [taskAlive EXCEPT ![k] = taskAlive[k] /\ ~evict /\ ~completed]
              c == ContCmd([th[t] EXCEPT !.res = "ok"], cmdReady, cmdEvents, coreEvents, AnyAlive(al)) IN
          /\ taskAlive' = al
          /\ chan' = IF evict THEN [chan EXCEPT ![k] = <<>>] ELSE chan   \* the receiver is dropped with the task
          /\ refs' = [refs EXCEPT ![th[t].myw] = @ - 1]
          /\ Set(t, c.T) /\ cmdReady' = c.cr /\ cmdEvents' = c.cev /\ coreEvents' = c.ce
          /\ cmdWaker' = IF c.cw THEN TRUE ELSE cmdWaker
  /\ UNCHANGED <<reglock, recvWaker, woken, wtask, nextW, execReady, spawnQ, slot, log>>

\* H is put back into its slot; run_all's ready pass goes on
ExPutback(t) ==
  /\ Pc(t) = "ex_putback"
  /\ slot' = "present"
  /\ LET c == ContReady([th[t] EXCEPT !.work = TRUE], execReady, coreEvents) IN
     Set(t, c.T) /\ execReady' = c.er /\ coreEvents' = c.ce
  /\ UNCHANGED <<reglock, chan, recvWaker, woken, refs, wtask, nextW, cmdReady, cmdWaker, spawnQ, taskAlive,
                 cmdEvents, log>>

\* a completed executor task frees its slot; X was run from the spawn pass, H from the ready pass
ExRemove(t) ==
  /\ Pc(t) = "ex_remove"
  /\ IF th[t].xtask
     THEN /\ LET c == ContSpawn([th[t] EXCEPT !.xtask = FALSE, !.work = TRUE], spawnQ) IN
             Set(t, c.T) /\ spawnQ' = c.sq
          /\ UNCHANGED <<slot, execReady, coreEvents>>
     ELSE /\ slot' = "free"
          /\ LET c == ContReady([th[t] EXCEPT !.work = TRUE], execReady, coreEvents) IN
             Set(t, c.T) /\ execReady' = c.er /\ coreEvents' = c.ce
          /\ UNCHANGED spawnQ
  /\ UNCHANGED <<reglock, chan, recvWaker, woken, refs, wtask, nextW, cmdReady, cmdWaker, taskAlive,
                 cmdEvents, log>>

\* Core::process: update under the model lock, spawn the returned command, run_all again
CoUpdate(t) ==
  /\ Pc(t) = "co_update"
  /\ log' = Append(log, th[t].ev)
  /\ spawnQ' = spawnQ + 1
  /\ Set(t, [th[t] EXCEPT !.pc = "ex_spawn", !.work = FALSE, !.ev = 0])
  /\ UNCHANGED <<reglock, chan, recvWaker, woken, refs, wtask, nextW, cmdReady, cmdWaker, execReady, slot,
                 taskAlive, cmdEvents, coreEvents>>

CoDrain(t) ==
  /\ Pc(t) = "co_drain"
  /\ Set(t, [th[t] EXCEPT !.pc = "call_end"])
  /\ UNCHANGED <<reglock, chan, recvWaker, woken, refs, wtask, nextW, cmdReady, cmdWaker, execReady, spawnQ,
                 slot, taskAlive, cmdEvents, coreEvents, log>>

CallEnd(t) ==
  /\ Pc(t) = "call_end"
  /\ Set(t, [th[t] EXCEPT !.pc = "Done"])
  /\ UNCHANGED <<reglock, chan, recvWaker, woken, refs, wtask, nextW, cmdReady, cmdWaker, execReady, spawnQ,
                 slot, taskAlive, cmdEvents, coreEvents, log>>

StepOf(t) ==
  \/ CallBegin(t) \/ CwSend(t) \/ CwWoken(t) \/ CwParent(t) \/ CwDrop(t) \/ CoProcess(t)
  \/ ExSpawn(t) \/ ExReady(t) \/ ExRun(t) \/ ExPoll(t) \/ CsSettle(t) \/ CrTask(t) \/ CtPoll(t)
  \/ CtWoken(t) \/ CtCount(t) \/ ExPutback(t) \/ ExRemove(t) \/ CoUpdate(t) \/ CoDrain(t) \/ CallEnd(t)

Next == \E t \in Threads : StepOf(t)
Spec == Init /\ [][Next]_vars

---------------------------------------------------------------------------
(* Properties *)

AllDone == \A t \in Threads : Pc(t) = "Done"

\* a task whose request the shell still feeds / has just answered is never torn down:
\* a stream task is never evicted; a one-shot task only goes by completing
NeverTornDown ==
  IF Once THEN \A k \in Tasks : ~taskAlive[k] => (\E i \in DOMAIN log : log[i] = k) \/ (\E i \in DOMAIN cmdEvents : cmdEvents[i] = k)
                                                 \/ (\E i \in DOMAIN coreEvents : coreEvents[i] = k) \/ (\E t \in Threads : th[t].ev = k)
  ELSE taskAlive[1]

\* when all calls have returned: every delivered item has been applied exactly once, nothing is runnable
AllDelivered ==
  AllDone => /\ Len(log) = Cardinality(Threads)
             /\ execReady = 0 /\ spawnQ = 0
             /\ (~Once => cmdReady = <<>>)          \* (stale ids of completed one-shot tasks may remain)
             /\ \A k \in Tasks : chan[k] = <<>>
             /\ cmdEvents = <<>> /\ coreEvents = <<>>
             /\ \A t \in Threads : th[t].res = "ok"
             /\ (Once => slot = "free")              \* the command finished: its executor task is gone

NoDuplicates == \A i, j \in DOMAIN log : i # j => log[i] # log[j]

\* no caller spins for ever: from every state all calls can still return
\* (checked as: no deadlock before AllDone)
NoStuck == AllDone \/ ENABLED Next
=============================================================================
