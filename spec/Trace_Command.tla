--------------------------- MODULE Trace_Command ---------------------------
(* Trace validation for commands inspected directly (effects/events/is_done) or polled by hand  *)
(* as a Stream.  Every trace line is one shell action followed by the outputs of that call.     *)
EXTENDS CruxCommand, Json, IOUtils

Rec == ndJsonDeserialize(IOEnv.TRACE)
KF == IF "KF" \in DOMAIN IOEnv THEN IOEnv.KF ELSE ""

VARIABLES l,      \* next trace line
          ph,     \* "act": perform line l's action; "take": run to quiescence and match its outputs
          progs   \* program table of the current case

tvars == <<l, ph, progs>>
vars == <<cvars, tvars>>

Line == Rec[l]

TInit == Init /\ l = 1 /\ ph = "act" /\ progs = <<>> /\ TLCSet(1, 1) /\ TLCSet(4, 0)

RootKey == <<0, RootId(progs[1])>>

ResetC == /\ cmds' = <<>> /\ tasks' = <<>> /\ ready' = {} /\ run' = NONE /\ reqs' = NoReqs /\ joinreg' = <<>>
          /\ rq' = <<>> /\ sq' = <<>>

\* events of one task appear in the order the task emitted them
OrderOK(s, out) ==
  LET N(x) == (CHOOSE y \in out : y.o = x.o /\ y.kind = x.kind).n IN
  \A i, j \in DOMAIN s : (i < j /\ s[i].o[1] = s[j].o[1] /\ s[i].o[2] = s[j].o[2]) => N(s[i]) < N(s[j])

\* after a shell action the host inspects the command (run to quiescence, outputs matched) -- unless
\* the driver batched this action with the next one ("notake"): then nothing runs in between
After == IF "notake" \in DOMAIN Line
         THEN l' = l + 1 /\ UNCHANGED <<ph, progs>>
         ELSE ph' = "take" /\ UNCHANGED <<l, progs>>

Act ==
  /\ ph = "act" /\ l <= Len(Rec)
  /\ \/ /\ Line.e = "case"
        /\ ResetC /\ progs' = Line.progs /\ l' = l + 1 /\ UNCHANGED ph
     \/ /\ Line.e = "end" /\ Line.drop_ok
        /\ l' = l + 1 /\ UNCHANGED <<cvars, ph, progs>>
     \/ /\ Line.e = "start"
        /\ Start(progs[Line.p + 1], 0)
        /\ ph' = "take" /\ UNCHANGED <<l, progs>>
     \/ /\ Line.e = "resolve"
        /\ Line.o \in DOMAIN reqs
        /\ ResolveResult(Line.o) = Line.res
        /\ \E al \in Aliases(Line.o) : Resolve(Line.o, Line.val, al)
        /\ After
     \/ /\ Line.e = "drop"
        /\ Line.o \in DOMAIN reqs
        /\ \E al \in Aliases(Line.o) : DropReq(Line.o, al)
        /\ After
     \/ /\ Line.e = "abort"
        /\ AbortCmd(Line.c)
        /\ After

Silent == ph = "take" /\ Internal /\ UNCHANGED tvars

Match ==
  /\ ph = "take"
  /\ Quiescent
  /\ LET out  == cmds[RootKey].out
         effs == {i \in out : i.kind = "eff"}
         evs  == {i \in out : i.kind = "ev"} IN
     /\ Range(Line.effs) = {Strip(i) : i \in effs} /\ Len(Line.effs) = Cardinality(effs)
     /\ Range(Line.evs) = {Strip(i) : i \in evs} /\ Len(Line.evs) = Cardinality(evs)
     /\ OrderOK(Line.effs, out) /\ OrderOK(Line.evs, out)
     /\ Line.live = Cardinality(LiveIn(St, RootKey))
     /\ ("alive" \in DOMAIN Line) => Range(Line.alive) = ScriptTasksAlive
     /\ Line.done = (LiveIn(St, RootKey) = {})
     \* is_done asked BEFORE the outputs were collected: a command with outputs waiting is not done, and one
     \* with nothing left is.  (An abort takes effect on entry to the NEXT settle: a command aborted during the
     \* one settle this first is_done ran -- by one of its own tasks -- may still say "not done" here and be
     \* found done by the calls that follow; the model runs those settles as one.  The same holds one level down, for
     \* a nested command aborted from inside: no demand while any command of the case carries an abort flag.)
     /\ ("done0" \in DOMAIN Line) =>
          /\ Line.done0 => (out = {} /\ LiveIn(St, RootKey) = {})
          /\ (out = {} /\ LiveIn(St, RootKey) = {} /\ \A c \in DOMAIN cmds : ~cmds[c].aborted) => Line.done0
     /\ ("ops" \in DOMAIN Line) => Line.ops <= OpsAlive + Cardinality({i \in effs : TRUE})
  \* known deviation D12 observed: a task stuck in flatten_unordered is still there
  /\ IF \E t \in Live(St) : FlatStuck(St, t) THEN TLCSet(4, TLCGet(4) + 1) ELSE TRUE
  /\ Take(RootKey)
  /\ l' = l + 1 /\ ph' = "act" /\ UNCHANGED progs

TNext == Act \/ Silent \/ Match

TSpec == TInit /\ [][TNext]_vars

\* remember the furthest line reached (register 1); used by the acceptance postcondition
Progress == IF l > TLCGet(1) THEN TLCSet(1, l) ELSE TRUE

Accepted ==
  LET n == TLCGet(1) IN
  /\ PrintT(<<"KFHITS", 0, 0, TLCGet(4)>>)
  /\ IF n > Len(Rec) THEN TRUE
     ELSE /\ PrintT(<<"REJECTED_AT", n, Rec[n]>>)
          /\ FALSE
=============================================================================
