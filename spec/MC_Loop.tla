------------------------------- MODULE MC_Loop -------------------------------
(* ExecLoop.tla against every environment within small bounds: tasks that spawn and wake at will while *)
(* they are polled, shells that spawn and wake between calls.                                          *)
EXTENDS ExecLoop
CONSTANTS MaxPending, MaxQueue
\* spawning and waking happen outside run_all or while a task is polled (one caller)
\* (a popped key that names no task polls nothing: nobody runs then)
Env == pc = "idle" \/ (cur # NOKEY /\ cur \in slab)
MNext ==
  \/ (Env /\ pending < MaxPending /\ Spawn)
  \/ (Env /\ Len(rq) < MaxQueue /\ \E k \in Keys : Wake(k))
  \/ Begin \/ ToReady \/ Loop \/ Done
  \/ \E k \in Keys : Take(k) \/ Pop(k) \/ \E res \in {"missing", "suspended", "completed"} : Polled(k, res)
MSpec == LInit /\ [][MNext]_lvars
TypeOK == pending \in 0..MaxPending /\ slab \subseteq Keys /\ Len(rq) <= MaxQueue /\ pc \in {"idle", "spawn", "ready"}
QuietWhenIdleAfterRun == TRUE
=============================================================================
