------------------------------ MODULE MC_Timer ------------------------------
(* Bounded exhaustive exploration of Timer.tla; terminal behaviours are printed as schedules. *)
EXTENDS Timer, Json, IOUtils

MaxAct == atoi(IOEnv.MAXACT)
VARIABLE hist
mvars == <<tvars, hist>>

MInit == Init /\ hist = <<>>
Act(a, i) == hist' = Append(hist, [a |-> a, i |-> i])
Dead == \E i \in T : phase[i] = "broken"       \* a task panicked: the case is over
MNext ==
  /\ Len(hist) < MaxAct /\ ~Dead
  /\ \E i \in T : \/ Poll(i) /\ Act("poll", i)
                  \/ ShellFires(i) /\ Act("fire", i)
                  \/ N >= 2 /\ ShellFiresWrong(i) /\ Act("fire_wrong", i)
                  \/ AppClears(i) /\ Act("clear", i)
                  \/ DropHandle(i) /\ Act("drop_handle", i)
                  \/ ShellDropsStart(i) /\ Act("drop_start", i)
                  \/ ShellAnswersClear(i) /\ Act("answer_clear", i)
                  \/ ShellDropsClear(i) /\ Act("drop_clear", i)
MSpec == MInit /\ [][MNext]_mvars

\* useless repetitions are pruned: polling twice in a row, acting on a finished timer
Useful ==
  \/ Len(hist) < 2
  \/ ~(hist[Len(hist)].a = "poll" /\ hist[Len(hist) - 1] = hist[Len(hist)])

EmitSched == (Len(hist) = MaxAct \/ Dead) => PrintT(<<"SCHED", ToJson(hist)>>)
=============================================================================
