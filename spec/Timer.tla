------------------------------- MODULE Timer -------------------------------
(***************************************************************************)
(* crux_time, command API: Time::notify_after / notify_at + TimerHandle    *)
(* (crux_time/src/command.rs).  One state machine per timer; every         *)
(* environment action of C18 is an independently enabled step, so TLC      *)
(* explores every race the property lists.  A timer task only runs when    *)
(* its command is polled (Poll); effects and events appear at polls.       *)
(***************************************************************************)
EXTENDS Naturals, Sequences, FiniteSets, TLC

CONSTANT N          \* number of timers
T == 1..N

VARIABLES
  phase,     \* built | waiting | clearSent | completed | cleared | abandoned
  handle,    \* held | cleared (TimerHandle::clear called) | dropped
  start,     \* the NotifyAfter/NotifyAt request: none | out | answered | dropped
  sval,      \* an answer to the start request is waiting in its channel (not yet seen by the task)
  clr,       \* the Clear request: none | out | answered | dropped
  woken,     \* the timer task has been woken since its last poll (or was never polled)
  outs,      \* per timer: sequence of everything it sent / reported, in order
  wrong      \* the answer waiting for timer i names another timer (a mixed-up shell)

tvars == <<phase, handle, start, sval, clr, woken, outs, wrong>>

Init ==
  /\ phase = [i \in T |-> "built"] /\ handle = [i \in T |-> "held"]
  /\ start = [i \in T |-> "none"] /\ sval = [i \in T |-> FALSE]
  /\ clr = [i \in T |-> "none"] /\ woken = [i \in T |-> TRUE]
  /\ outs = [i \in T |-> <<>>] /\ wrong = [i \in T |-> FALSE]

Final(i) == phase[i] \in {"completed", "cleared", "abandoned", "broken"}

\* what one poll of timer i's task does, as [phase, start, clr, out (sequence of new outputs), sval]
PollResult(i) ==
  LET P0 == [phase |-> phase[i], start |-> start[i], clr |-> clr[i], out |-> <<>>, sval |-> sval[i]]
      \* first poll: a clear that is already waiting wins and nothing is sent
      P1 == IF phase[i] = "built"
            THEN IF handle[i] = "cleared"
                 THEN [P0 EXCEPT !.phase = "cleared", !.out = <<"ev_cleared">>]
                 ELSE [P0 EXCEPT !.phase = "waiting", !.start = "out", !.out = <<"eff_start">>]
            ELSE P0
      \* select_biased: the response branch first, then the handle
      P2 == IF P1.phase = "waiting"
            THEN IF P1.sval
                 \* (an answer that names another timer is a developer error: the task stops with a panic --
                 \* it never reports an outcome on the strength of somebody else's answer)
                 THEN IF wrong[i] THEN [P1 EXCEPT !.phase = "broken", !.sval = FALSE, !.out = @ \o <<"panic">>]
                      ELSE [P1 EXCEPT !.phase = "completed", !.sval = FALSE, !.out = @ \o <<"ev_completed">>]
                 ELSE IF handle[i] = "cleared"
                      THEN [P1 EXCEPT !.phase = "clearSent", !.clr = "out", !.out = @ \o <<"eff_clear">>]
                      ELSE IF P1.start = "dropped" /\ handle[i] = "dropped"
                           THEN [P1 EXCEPT !.phase = "abandoned"]     \* nothing can wake it: evicted
                           ELSE P1
            ELSE P1
      P3 == IF P2.phase = "clearSent"
            THEN IF P2.clr = "answered" THEN [P2 EXCEPT !.phase = "cleared", !.out = @ \o <<"ev_cleared">>]
                 ELSE IF P2.clr = "dropped" THEN [P2 EXCEPT !.phase = "abandoned"]
                 ELSE P2
            ELSE P2
  IN P3

\* the host inspects timer i's command: its task runs if it has been woken
Poll(i) ==
  /\ IF woken[i] /\ ~Final(i)
     THEN LET r == PollResult(i) IN
          /\ phase' = [phase EXCEPT ![i] = r.phase]
          /\ start' = [start EXCEPT ![i] = r.start]
          /\ clr' = [clr EXCEPT ![i] = r.clr]
          /\ sval' = [sval EXCEPT ![i] = r.sval]
          /\ outs' = [outs EXCEPT ![i] = @ \o r.out]
     ELSE UNCHANGED <<phase, start, clr, sval, outs>>
  /\ woken' = [woken EXCEPT ![i] = FALSE]
  /\ UNCHANGED <<handle, wrong>>

NewOutputs(i) == IF woken[i] /\ ~Final(i) THEN PollResult(i).out ELSE <<>>

\* the shell answers the start request; a second answer is rejected (Never) and changes nothing
FireResult(i) == IF start[i] = "out" THEN "ok" ELSE "never"
ShellFires(i) ==
  /\ start[i] \in {"out", "answered"}
  /\ IF start[i] = "out"
     THEN /\ start' = [start EXCEPT ![i] = "answered"]
          /\ sval' = [sval EXCEPT ![i] = phase[i] \in {"waiting", "clearSent"}]
          /\ woken' = [woken EXCEPT ![i] = TRUE]
     ELSE UNCHANGED <<start, sval, woken>>
  /\ UNCHANGED <<phase, handle, clr, outs, wrong>>

\* ... with an answer that carries another timer's id (only the first answer counts, as above)
ShellFiresWrong(i) ==
  /\ start[i] = "out"
  /\ start' = [start EXCEPT ![i] = "answered"]
  /\ sval' = [sval EXCEPT ![i] = phase[i] \in {"waiting", "clearSent"}]
  /\ woken' = [woken EXCEPT ![i] = TRUE]
  /\ wrong' = [wrong EXCEPT ![i] = TRUE]
  /\ UNCHANGED <<phase, handle, clr, outs>>

AppClears(i) ==
  /\ handle[i] = "held"
  /\ handle' = [handle EXCEPT ![i] = "cleared"]
  /\ woken' = [woken EXCEPT ![i] = TRUE]
  /\ UNCHANGED <<phase, start, sval, clr, outs, wrong>>

DropHandle(i) ==
  /\ handle[i] = "held"
  /\ handle' = [handle EXCEPT ![i] = "dropped"]
  /\ woken' = [woken EXCEPT ![i] = TRUE]
  /\ UNCHANGED <<phase, start, sval, clr, outs, wrong>>

ShellDropsStart(i) ==
  /\ start[i] = "out"
  /\ start' = [start EXCEPT ![i] = "dropped"]
  /\ woken' = [woken EXCEPT ![i] = TRUE]
  /\ UNCHANGED <<phase, handle, sval, clr, outs, wrong>>

AnswerClearResult(i) == IF clr[i] = "out" THEN "ok" ELSE "never"
ShellAnswersClear(i) ==
  /\ clr[i] \in {"out", "answered"}
  /\ IF clr[i] = "out"
     THEN clr' = [clr EXCEPT ![i] = "answered"] /\ woken' = [woken EXCEPT ![i] = TRUE]
     ELSE UNCHANGED <<clr, woken>>
  /\ UNCHANGED <<phase, handle, start, sval, outs, wrong>>

ShellDropsClear(i) ==
  /\ clr[i] = "out"
  /\ clr' = [clr EXCEPT ![i] = "dropped"]
  /\ woken' = [woken EXCEPT ![i] = TRUE]
  /\ UNCHANGED <<phase, handle, start, sval, outs, wrong>>

Next == \E i \in T : \/ Poll(i) \/ ShellFires(i) \/ ShellFiresWrong(i) \/ AppClears(i) \/ DropHandle(i) \/ ShellDropsStart(i)
                      \/ ShellAnswersClear(i) \/ ShellDropsClear(i)

Spec == Init /\ [][Next]_tvars

---------------------------------------------------------------------------
(* Properties (C18) *)

Count(s, x) == Cardinality({k \in DOMAIN s : s[k] = x})

AtMostOneOutcome == \A i \in T : Count(outs[i], "ev_completed") + Count(outs[i], "ev_cleared") <= 1
CompletedOnlyIfAnswered == \A i \in T : Count(outs[i], "ev_completed") = 1 => start[i] = "answered"
ClearedOnlyIfAppCleared == \A i \in T : Count(outs[i], "ev_cleared") = 1 => handle[i] = "cleared"
EarlyClearSendsNothing ==
  \A i \in T : (outs[i] # <<>> /\ outs[i][1] = "ev_cleared") => outs[i] = <<"ev_cleared">>
ExactlyOneClearRequest ==
  \A i \in T : /\ Count(outs[i], "eff_clear") <= 1 /\ Count(outs[i], "eff_start") <= 1
               /\ (Count(outs[i], "ev_cleared") = 1 /\ Count(outs[i], "eff_start") = 1)
                     => (Count(outs[i], "eff_clear") = 1 /\ clr[i] = "answered")
DropHandleNeverCancels ==
  \A i \in T : (handle[i] = "dropped" /\ Final(i)) => phase[i] \in {"completed", "abandoned", "broken"}
AbandonedOnlyIfDropped ==
  \A i \in T : phase[i] = "abandoned" => (clr[i] = "dropped" \/ (start[i] = "dropped" /\ handle[i] = "dropped"))
NothingAfterOutcome ==
  \A i \in T : \A k \in DOMAIN outs[i] : outs[i][k] \in {"ev_completed", "ev_cleared"} => k = Len(outs[i])
=============================================================================
