SPECIFICATION TSpec
CONSTANT Sched = "fifo"
CONSTANT KFS = {"D9", "D10", "D12"}
CONSTRAINT Progress
POSTCONDITION Accepted
CHECK_DEADLOCK FALSE
