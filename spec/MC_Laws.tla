------------------------------ MODULE MC_Laws ------------------------------
(* C04, "the usual laws follow": two commands that a law declares equal are run side by side     *)
(* (two instances of CruxCommand.tla, each with the queue discipline of the code, so each is a   *)
(* function of what the shell does) under every shell schedule of resolve / drop / abort.  After  *)
(* every shell action both settle, and what an inspection would return must be the same on both   *)
(* sides: the same set of effects and events (stamps, tags, values), the same is_done, and the    *)
(* shell must get the same answer (ok / never / finished) from both.                              *)
(*                                                                                               *)
(* Laws (gen/family.py laws1): done is a unit of then and of and; all of one command is that     *)
(* command; mapping with the identity changes nothing; and / all do not depend on the order of    *)
(* their arguments (outputs compared as sets per inspection).                                     *)
EXTENDS Naturals, Sequences, FiniteSets, TLC, Json, IOUtils

Pairs == JsonDeserialize(IOEnv.PAIRS)      \* JSON array of [a, b, law]
MaxAct == atoi(IOEnv.MAXACT)

VARIABLES cmdsA, tasksA, readyA, runA, reqsA, joinregA, rqA, sqA,
          cmdsB, tasksB, readyB, runB, reqsB, joinregB, rqB, sqB,
          pidx, nact, answers    \* answers: <<answer of A, answer of B>> to the last shell action

varsA == <<cmdsA, tasksA, readyA, runA, reqsA, joinregA, rqA, sqA>>
varsB == <<cmdsB, tasksB, readyB, runB, reqsB, joinregB, rqB, sqB>>
vars == <<varsA, varsB, pidx, nact, answers>>

A == INSTANCE CruxCommand WITH Sched <- "fifo", KFS <- {}, cmds <- cmdsA, tasks <- tasksA, ready <- readyA,
                               run <- runA, reqs <- reqsA, joinreg <- joinregA, rq <- rqA, sq <- sqA
B == INSTANCE CruxCommand WITH Sched <- "fifo", KFS <- {}, cmds <- cmdsB, tasks <- tasksB, ready <- readyB,
                               run <- runB, reqs <- reqsB, joinreg <- joinregB, rq <- rqB, sq <- sqB

RootA == <<0, A!RootId(Pairs[pidx].a)>>
RootB == <<0, B!RootId(Pairs[pidx].b)>>

LInit == A!Init /\ B!Init /\ pidx = 0 /\ nact = 0 /\ answers = <<"", "">>

LStart ==
  /\ pidx = 0
  /\ \E p \in DOMAIN Pairs :
       /\ pidx' = p
       /\ A!Start(Pairs[p].a, 0) /\ B!Start(Pairs[p].b, 0)
  /\ UNCHANGED <<nact, answers>>

\* each side settles by itself (A first: the two do not interact)
SettleA == pidx # 0 /\ A!Internal /\ UNCHANGED <<varsB, pidx, nact, answers>>
SettleB == pidx # 0 /\ A!Quiescent /\ B!Internal /\ UNCHANGED <<varsA, pidx, nact, answers>>

Both == pidx # 0 /\ A!Quiescent /\ B!Quiescent

OutA == {A!Strip(i) : i \in cmdsA[RootA].out}
OutB == {B!Strip(i) : i \in cmdsB[RootB].out}
Pending(S) == S # {}

\* the inspection calls on both sides, once both have settled (what they return is compared by LawHolds)
LTake ==
  /\ Both /\ (Pending(cmdsA[RootA].out) \/ Pending(cmdsB[RootB].out))
  /\ A!Take(RootA) /\ B!Take(RootB)
  /\ UNCHANGED <<pidx, nact, answers>>

Idle == Both /\ cmdsA[RootA].out = {} /\ cmdsB[RootB].out = {} /\ nact < MaxAct

\* the shell holds the same requests on both sides (LawHolds) and does the same thing to both
LResolve ==
  /\ Idle
  /\ \E r \in {x \in DOMAIN reqsA : reqsA[x].held} :
       /\ r \in DOMAIN reqsB /\ reqsB[r].held
       /\ A!ResolveResult(r) # "never"
       /\ answers' = <<A!ResolveResult(r), B!ResolveResult(r)>>
       /\ A!Resolve(r, reqsA[r].nres + 1, <<>>) /\ B!Resolve(r, reqsA[r].nres + 1, <<>>)
  /\ nact' = nact + 1 /\ UNCHANGED pidx

LDrop ==
  /\ Idle
  /\ \E r \in {x \in DOMAIN reqsA : reqsA[x].held /\ reqsA[x].senderAlive /\ reqsA[x].kind # "never"} :
       /\ r \in DOMAIN reqsB /\ reqsB[r].held
       /\ A!DropReq(r, <<>>) /\ B!DropReq(r, <<>>)
  /\ nact' = nact + 1 /\ UNCHANGED <<pidx, answers>>

\* abort the whole command on both sides
LAbort ==
  /\ Idle /\ ~cmdsA[RootA].aborted
  /\ A!AbortCmd(RootA) /\ B!AbortCmd(RootB)
  /\ nact' = nact + 1 /\ UNCHANGED <<pidx, answers>>

LNext == LStart \/ SettleA \/ SettleB \/ LTake \/ LResolve \/ LDrop \/ LAbort
LSpec == LInit /\ [][LNext]_vars

---------------------------------------------------------------------------
HeldKeys(R) == {r \in DOMAIN R : R[r].held}

LawHolds ==
  Both => /\ OutA = OutB
          /\ (A!LiveIn(A!St, RootA) = {}) = (B!LiveIn(B!St, RootB) = {})
          /\ HeldKeys(reqsA) = HeldKeys(reqsB)
          /\ answers[1] = answers[2]
=============================================================================
