----------------------------- MODULE MC_Command -----------------------------
(* Exhaustive exploration of small programs under every poll order ("any") and every shell     *)
(* schedule of resolve / drop / abort, with the design-level invariants behind C02,C04-C07,C13. *)
(* Terminal behaviours are printed as schedules for replay on the implementation.               *)
EXTENDS CruxCommand, Json, IOUtils

Progs == JsonDeserialize(IOEnv.PROGS)     \* a JSON array of programs
MaxAct == atoi(IOEnv.MAXACT)
Harvest == IOEnv.HARVEST = "1"

VARIABLES pidx,       \* program under exploration (0 = not started)
          hist,       \* shell actions so far
          needTake,   \* a shell action has been made; the inspection calls come next
          inTake,     \* the inspection calls are running (nothing runs between batched shell actions)
          cancelAt,   \* task key -> emission counter when it was cancelled (abort)
          outs        \* what the last inspection returned (for printing)

mvars == <<pidx, hist, needTake, inTake, cancelAt, outs>>
vars == <<cvars, mvars>>

RootKey == <<0, RootId(Progs[pidx])>>

MInit == Init /\ pidx = 0 /\ hist = <<>> /\ needTake = FALSE /\ inTake = FALSE /\ cancelAt = <<>> /\ outs = <<>>

MStart ==
  /\ pidx = 0
  /\ \E p \in DOMAIN Progs :
       /\ pidx' = p
       /\ Start(Progs[p], 0)
  /\ hist' = << [a |-> "run", p |-> 0] >>
  /\ needTake' = TRUE /\ inTake' = TRUE
  /\ UNCHANGED <<cancelAt, outs>>

Held == {r \in DOMAIN reqs : reqs[r].held}

\* shell actions may be batched: a further action before the command has been inspected again
Acts == Cardinality({i \in DOMAIN hist : hist[i].a # "take"})
MResolve ==
  /\ pidx # 0 /\ ~inTake /\ Acts < MaxAct
  /\ \E r \in Held :
       /\ ResolveResult(r) = "ok"
       /\ \E al \in Aliases(r) : Resolve(r, reqs[r].nres + 1, al)
       /\ hist' = Append(hist, [a |-> "resolve", o |-> r, val |-> reqs[r].nres + 1])
  /\ needTake' = TRUE
  /\ UNCHANGED <<pidx, inTake, cancelAt, outs>>

MDrop ==
  /\ pidx # 0 /\ ~inTake /\ Acts < MaxAct
  /\ \E r \in Held :
       /\ reqs[r].senderAlive /\ reqs[r].kind # "never"
       /\ \E al \in Aliases(r) : DropReq(r, al)
       /\ hist' = Append(hist, [a |-> "drop", o |-> r])
  /\ needTake' = TRUE
  /\ UNCHANGED <<pidx, inTake, cancelAt, outs>>

\* abort any command that exists and is not finished; remember where its tasks stood
MAbort ==
  /\ pidx # 0 /\ ~inTake /\ Acts < MaxAct
  /\ \E c \in DOMAIN cmds :
       /\ cmds[c].alive /\ ~cmds[c].aborted
       /\ AbortCmd(c)
       /\ hist' = Append(hist, [a |-> "abort", c |-> c])
       /\ cancelAt' = [t \in SubtreeTasks(St, c) |-> tasks[t].en] @@ cancelAt
  /\ needTake' = TRUE
  /\ UNCHANGED <<pidx, inTake, outs>>

\* abort(h) inside a poll: the target is cancelled from here on
MBeginTake ==
  /\ needTake /\ ~inTake
  /\ inTake' = TRUE
  /\ hist' = Append(hist, [a |-> "take"])
  /\ UNCHANGED <<cvars, pidx, needTake, cancelAt, outs>>

MInternal ==
  /\ inTake
  /\ Internal
  /\ cancelAt' = IF run # NONE /\ tasks[run].pc <= Len(tasks[run].code) /\ tasks[run].code[tasks[run].pc].op = "abort"
                 THEN LET b == tasks[run].handles[tasks[run].code[tasks[run].pc].h] IN
                      IF tasks[b].st = "live" /\ b \notin DOMAIN cancelAt THEN (b :> tasks[b].en) @@ cancelAt ELSE cancelAt
                 ELSE cancelAt
  /\ UNCHANGED <<pidx, hist, needTake, inTake, outs>>

MTake ==
  /\ needTake /\ inTake
  /\ outs' = {Strip(i) : i \in cmds[RootKey].out}
  /\ Take(RootKey)
  /\ needTake' = FALSE /\ inTake' = FALSE
  /\ UNCHANGED <<pidx, hist, cancelAt>>

MNext == MStart \/ MResolve \/ MDrop \/ MAbort \/ MBeginTake \/ MInternal \/ MTake

MSpec == MInit /\ [][MNext]_vars

---------------------------------------------------------------------------
(* Invariants *)

\* C05: no wake-up is lost between layers -- a ready task's hosts are all ready (or running)
ReadyClosed ==
  \A t \in ready : tasks[t].st = "live" =>
     \A h \in HostChain(St, t) : h \in ready \/ h = run

\* C07: a task is evicted only when it can never make progress again
EvictionSound ==
  \A t \in DOMAIN tasks : tasks[t].why = "evicted" => Stuck(St, t)

\* C07: once the shell holds nothing that could still be resolved, the command is done
Settled == \A r \in DOMAIN reqs : ~(reqs[r].senderAlive /\ reqs[r].kind # "never")
\* (a task that waits for a message on a task-to-task channel somebody can still send on waits for
\* another task, not for the shell: the guarantee is about tasks that wait on shell requests only)
ChanWait(t) ==
  LET T == tasks[t] IN
  /\ T.pc <= Len(T.code) /\ IsWait(T.code[T.pc]) /\ T.ls # <<>>
  /\ LET L == LeavesOf(T.code[T.pc]) IN
     \E i \in DOMAIN L : L[i].k = "recv" /\ ~T.ls[i].done /\ reqs[T.ls[i].rid].tx # {}
DoneWhenSettled ==
  (pidx # 0 /\ ~needTake /\ Settled /\ ~(\E t \in Live(St) : ChanWait(t)))
     => (LiveIn(St, RootKey) = {} /\ cmds[RootKey].out = {})

\* C06: cancelled work never emits again
NoOutputAfterCancel ==
  \A t \in DOMAIN cancelAt : tasks[t].en = cancelAt[t]

\* C06: an aborted command is done as soon as its outputs have been taken
AbortedDoneAfterDrain ==
  (pidx # 0 /\ ~needTake /\ cmds[RootKey].aborted) => LiveIn(St, RootKey) = {}

\* C02: arity
AritySafe ==
  \A r \in DOMAIN reqs :
     /\ reqs[r].kind0 = "never" => reqs[r].nres = 0 /\ reqs[r].chan = <<>>
     /\ reqs[r].kind0 = "once"  => reqs[r].nres <= 1 /\ Len(reqs[r].chan) <= 1
     /\ ~reqs[r].recvAlive => (reqs[r].kind0 = "many" => TRUE)

\* C13: a task that is gone keeps no receiver, no parked join waker, no hosted command
Released ==
  \A t \in DOMAIN tasks : tasks[t].st = "gone" =>
     /\ \A r \in DOMAIN reqs : reqs[r].owner = t => ~reqs[r].recvAlive
     /\ \A i \in DOMAIN joinreg : joinreg[i].w # t /\ joinreg[i].k # t
     /\ \A c \in DOMAIN cmds : cmds[c].host = t => ~cmds[c].alive

\* C04 (then): the second part exists only after the first has completely finished
ThenSequential ==
  \A h \in DOMAIN tasks :
     (tasks[h].st = "live" /\ Len(tasks[h].code) = 2 /\ tasks[h].code[1].op = "host"
        /\ tasks[h].code[2].op = "host" /\ tasks[h].pc = 2)
     => LET a == <<h[1], RootId(tasks[h].code[1].cmd)>> IN ~cmds[a].alive /\ cmds[a].out = {}

\* terminal behaviours, printed once each, become replay schedules
Terminal == pidx # 0 /\ ~needTake /\ (Acts >= MaxAct \/ ~ENABLED (MResolve \/ MDrop \/ MAbort))
EmitSched == (Harvest /\ Terminal) => PrintT(<<"SCHED", ToJson([p |-> pidx - 1, steps |-> hist])>>)

=============================================================================
