------------------------------ MODULE ExecLoop ------------------------------
(***************************************************************************)
(* The core's own executor (crux_core/src/capability/executor.rs,          *)
(* QueuingExecutor): the loop every call into a Core, a Bridge or an       *)
(* AppTester runs -- `run_all` -- without any knowledge of what the tasks  *)
(* do.  Two queues feed each other: futures handed to a Spawner wait in    *)
(* the spawn queue until run_all gives them a slab key and polls them;     *)
(* wakers send slab keys to the ready queue.  run_all alternates a spawn   *)
(* pass and a ready pass until a whole round did no work.                  *)
(*                                                                         *)
(* One action per event of the recorder (cfg crux_verif: xspawn, xwake,    *)
(* xrun, xtake, xpop, xpolled, xdone); the two pass switches are silent.   *)
(* What the properties need of it (C01: "no runnable work is left          *)
(* behind"): when run_all returns, no spawned future is waiting and no     *)
(* queued key names a task -- QuiescentAtDone.                             *)
(***************************************************************************)
EXTENDS Naturals, Sequences, FiniteSets

CONSTANT
  \* @type: Set(Int);
  Keys          \* slab keys (the trace validators never enumerate them)

VARIABLES
  \* @type: Int;
  pending,     \* futures in the spawn queue
  \* @type: Set(Int);
  slab,        \* occupied keys
  \* @type: Seq(Int);
  rq,          \* ready queue (keys; stale and duplicate keys allowed)
  \* @type: Str;
  pc,          \* "idle" | "spawn" | "ready": where run_all is
  \* @type: Bool;
  work,        \* did_some_work of the round under way
  \* @type: Int;
  cur          \* the key being polled, or NOKEY
lvars == <<pending, slab, rq, pc, work, cur>>

NOKEY == 0 - 1

LInit == pending = 0 /\ slab = {} /\ rq = <<>> /\ pc = "idle" /\ work = FALSE /\ cur = NOKEY

\* Spawner::spawn -- by `update` between two run_all calls, or by a task while it is polled
Spawn == pending' = pending + 1 /\ UNCHANGED <<slab, rq, pc, work, cur>>
\* TaskWaker::wake_by_ref -- by a shell resolving a request, or by a task while it is polled
Wake(k) == rq' = Append(rq, k) /\ UNCHANGED <<pending, slab, pc, work, cur>>

Begin == pc = "idle" /\ pc' = "spawn" /\ work' = FALSE /\ UNCHANGED <<pending, slab, rq, cur>>

\* spawn pass: the next future gets a vacant key and is polled at once
Take(k) ==
  /\ pc = "spawn" /\ cur = NOKEY /\ pending > 0 /\ k \notin slab
  /\ pending' = pending - 1 /\ slab' = slab \cup {k} /\ cur' = k /\ work' = TRUE
  /\ UNCHANGED <<rq, pc>>
ToReady == pc = "spawn" /\ cur = NOKEY /\ pending = 0 /\ pc' = "ready" /\ UNCHANGED <<pending, slab, rq, work, cur>>

\* @type: (Seq(Int), Int) => Seq(Int);
RemoveFirst(s, k) ==
  LET \* @type: Int;
      i == CHOOSE j \in DOMAIN s : s[j] = k /\ \A m \in DOMAIN s : m < j => s[m] # k IN
  SubSeq(s, 1, i - 1) \o SubSeq(s, i + 1, Len(s))

\* ready pass: a queued key is taken (the code takes the oldest; which one is not what matters)
Pop(k) ==
  /\ pc = "ready" /\ cur = NOKEY /\ \E j \in DOMAIN rq : rq[j] = k
  /\ rq' = RemoveFirst(rq, k) /\ cur' = k
  /\ UNCHANGED <<pending, slab, pc, work>>

\* run_task returned: the key named no task (stale) / the task is still pending / it completed
Polled(k, res) ==
  /\ cur = k /\ cur' = NOKEY
  /\ CASE res = "missing"   -> k \notin slab /\ UNCHANGED <<slab, work>>
       [] res = "suspended" -> k \in slab /\ work' = TRUE /\ UNCHANGED slab
       [] res = "completed" -> k \in slab /\ work' = TRUE /\ slab' = slab \ {k}
  /\ UNCHANGED <<pending, rq, pc>>

\* a round that did some work is followed by another one
Loop == pc = "ready" /\ cur = NOKEY /\ rq = <<>> /\ work /\ pc' = "spawn" /\ work' = FALSE
        /\ UNCHANGED <<pending, slab, rq, cur>>
Done == pc = "ready" /\ cur = NOKEY /\ rq = <<>> /\ ~work /\ pc' = "idle" /\ UNCHANGED <<pending, slab, rq, work, cur>>

Quiet == pending = 0 /\ \A j \in DOMAIN rq : rq[j] \notin slab

LNext ==
  \/ Spawn \/ (\E k \in Keys : Wake(k)) \/ Begin \/ ToReady \/ Loop \/ Done
  \/ \E k \in Keys : Take(k) \/ Pop(k) \/ \E res \in {"missing", "suspended", "completed"} : Polled(k, res)

\* C01: when run_all returns nothing runnable is left behind
QuiescentAtDone == [][Done => Quiet]_lvars
=============================================================================
