---------------------------- MODULE HttpOutcome ----------------------------
(***************************************************************************)
(* C15: what the app receives for every result the shell returns for an    *)
(* HTTP request (crux_http: protocol.rs From<HttpResponse>, response.rs    *)
(* Response::new, expect.rs, decode.rs, command.rs / request_builder.rs).  *)
(* A decision table over abstract classes; TLC enumerates it completely    *)
(* and every row becomes implementation tests (harness/src/caps.rs picks   *)
(* concrete members of each class).                                        *)
(***************************************************************************)
EXTENDS Naturals, Sequences, FiniteSets, TLC, Json, IOUtils

\* status codes the http-types registry knows (http_types::StatusCode)
Registered ==
  {100, 101, 103, 200, 201, 202, 203, 204, 205, 206, 207, 226, 300, 301, 302, 303, 304, 307, 308}
  \cup (400..418) \cup {421, 422, 423, 424, 425, 426, 428, 429, 431, 451}
  \cup (500..508) \cup {510, 511}

\* representative statuses for the full product (every status is covered by the sweep below)
RepStatus == {0, 99, 100, 199, 200, 204, 209, 299, 301, 304, 399, 400, 404, 418, 499, 500, 503, 599, 600, 999, 65535}

\* "malformed": a content-type value that is not type/subtype ("json", "", two types in one value): it is a
\* header like any other (it must reach the app as sent) and says nothing about the charset
CType  == {"none", "json", "text_utf8", "text_latin1", "text_unknown_charset", "binary", "malformed"}
\* charsets that are not ASCII-compatible (UTF-16, ISO-2022-JP) or that the WHATWG standard maps to the
\* "replacement" decoder (always an error for a non-empty body); their bodies are encoding specific
CTypeX == {"text_utf16le", "text_2022jp", "text_replacement"}
\* "json_trailing": a complete JSON document of the expected type FOLLOWED by more (a second document, a stray
\* brace, appended markup): the body as a whole is not a JSON value
Body   == {"empty", "ascii", "utf8", "invalid_utf8", "json_ok", "json_bad", "json_trailing"}
Expect == {"bytes", "string", "json"}
Shell  == {"ok", "err_url", "err_io", "err_timeout"}
Hdrs   == {"none", "one", "repeated", "mixed_case"}
Api    == {"command", "capability", "bridge_bin", "bridge_json"}    \* bridge: capability API behind the serialized bridge

Mode == IOEnv.MODE     \* "product": representative statuses x all dimensions; "sweep": every status

Cases ==
  IF Mode = "product"
  THEN [status : RepStatus, ctype : CType, body : Body, expect : Expect, shell : Shell, hdrs : Hdrs, api : Api]
       \cup [status : {200, 404}, ctype : CTypeX, body : {"enc_specific", "empty"}, expect : Expect, shell : {"ok"},
              hdrs : {"none"}, api : Api]
  ELSE [status : 0..65535, ctype : {"none"}, body : {"ascii"}, expect : {"bytes"}, shell : {"ok"},
        hdrs : {"one"}, api : {"command"}]

\* is the body decodable as a string under the charset the content type claims
StringOk(c) ==
  CASE c.ctype \in {"none", "json", "text_utf8", "binary", "malformed"} -> c.body # "invalid_utf8"
    [] c.ctype = "text_latin1" -> TRUE                 \* every byte string is valid windows-1252
    [] c.ctype = "text_unknown_charset" -> FALSE
    [] c.ctype \in {"text_utf16le", "text_2022jp"} -> TRUE     \* (the pools hold well-formed bodies)
    [] c.ctype = "text_replacement" -> c.body = "empty"

JsonOk(c) == c.body = "json_ok"

Expected(c) ==
  IF c.shell # "ok" THEN [k |-> "shell_err", e |-> c.shell]
  ELSE IF c.status \in 400..599 THEN [k |-> "http_err", status |-> c.status]
  ELSE IF c.status \in 100..399
  THEN CASE c.expect = "bytes"  -> [k |-> "success", status |-> c.status]
         [] c.expect = "string" -> IF StringOk(c) THEN [k |-> "success", status |-> c.status] ELSE [k |-> "decode_err"]
         [] c.expect = "json"   -> IF JsonOk(c) THEN [k |-> "success", status |-> c.status] ELSE [k |-> "decode_err"]
  ELSE [k |-> "any"]        \* outside 100..599 the property only demands: some outcome, no panic

\* known deviations (KNOWN_FINDINGS.json): D7 -- a status the http-types registry does not know
\* panics in From<HttpResponse>
Deviations(c) ==
  IF c.shell = "ok" /\ c.status \notin Registered THEN [D7 |-> [k |-> "panic"]] ELSE <<>>

VARIABLE c
Init == c \in Cases
Next == UNCHANGED c
Spec == Init /\ [][Next]_c

\* sanity of the table itself
ExactlyOneClass == Expected(c).k \in {"shell_err", "http_err", "success", "decode_err", "any"}
ErrorsOnlyFor4xx5xx == (Expected(c).k = "http_err") <=> (c.shell = "ok" /\ c.status \in 400..599)
ShellErrorsPassThrough == (c.shell # "ok") => Expected(c) = [k |-> "shell_err", e |-> c.shell]

Emit == PrintT(<<"CASE", ToJson([kind |-> "http_outcome", in |-> c, out |-> Expected(c), kf |-> Deviations(c)])>>)
=============================================================================
