SPECIFICATION TSpec
CONSTANT Sched = "fifo"
CONSTANT KFS = {}
CONSTRAINT Progress
POSTCONDITION Accepted
CHECK_DEADLOCK FALSE
