SPECIFICATION TSpec
CONSTANT Sched = "fifo"
CONSTANT KFS = {"D12"}
CONSTRAINT Progress
POSTCONDITION Accepted
CHECK_DEADLOCK FALSE
