SPECIFICATION TSpec
CONSTRAINT Progress
POSTCONDITION Accepted
CHECK_DEADLOCK FALSE
