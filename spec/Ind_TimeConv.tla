---------------------------- MODULE Ind_TimeConv ----------------------------
(* Round trips of TimeConv.tla for every value (Apalache, symbolic):                                   *)
(*   apalache-mc check --init=Init --inv=RoundTrips --length=0 Ind_TimeConv.tla                        *)
EXTENDS TimeConv

VARIABLES
  \* @type: Int;
  d,
  \* @type: Int;
  s,
  \* @type: Int;
  n

Init == d \in 0..U64MAX /\ s \in 0..U64MAX /\ n \in 0..(NPS - 1)
Next == UNCHANGED <<d, s, n>>

RoundTrips ==
  \* wire -> std -> wire gives the value back
  /\ LET r == WireToStd(d) IN StdToWire(r.x, r.y) = Ok(d, 0)
  \* std -> wire -> std gives the value back whenever the wire type can hold it, and is rejected otherwise
  /\ LET w == StdToWire(s, n) IN
       IF s * NPS + n <= U64MAX THEN w.ok /\ WireToStd(w.x) = Ok(s, n) ELSE w = Rej
  \* wire -> delta -> wire
  /\ LET r == WireToDeltaMust(d) IN DeltaToWireMust(r.x, r.y) = Ok(d, 0)
  \* what is accepted as an Instant has a valid sub-second part and survives the trip through SystemTime
  /\ LET i == InstantNew(s, n) IN i.ok /\ (s <= I64MAX => InstantToSys(i.x, i.y) = Ok(s, n))
  \* the constructors never wrap: an accepted result is the exact product
  /\ (FromMillis(s).ok => FromMillis(s).x = s * 1000000) /\ (FromSecs(s).ok => FromSecs(s).x = s * NPS)
=============================================================================
