mod alloc;
mod app;
mod caps;
mod det;
mod drive;
mod dsl;
mod exp;
mod legacy;
mod mt;
mod sched;
mod tconv;
mod time;

use std::io::{BufRead, BufWriter, Write};

#[global_allocator]
static GLOBAL: alloc::Counting = alloc::Counting;

fn main() {
    std::panic::set_hook(Box::new(|_| {})); // panics in code under test are data
    let args: Vec<String> = std::env::args().collect();
    match args.get(1).map(String::as_str) {
        Some("run") => {
            // run <cases.ndjson> <trace.ndjson>
            let inp = std::fs::File::open(&args[2]).expect("open cases");
            let out = std::fs::File::create(&args[3]).expect("create trace");
            let mut w = BufWriter::new(out);
            let mut n = 0;
            for line in std::io::BufReader::new(inp).lines() {
                let line = line.unwrap();
                if line.trim().is_empty() {
                    continue;
                }
                let case: drive::Case = serde_json::from_str(&line).expect("bad case");
                for l in drive::run_case(&case) {
                    serde_json::to_writer(&mut w, &l).unwrap();
                    w.write_all(b"\n").unwrap();
                }
                n += 1;
            }
            w.flush().unwrap();
            eprintln!("ran {n} cases");
        }
        Some("time") => {
            let inp = std::fs::File::open(&args[2]).expect("open cases");
            let out = std::fs::File::create(&args[3]).expect("create trace");
            let mut w = BufWriter::new(out);
            let mut ncase = 0u64;
            let (to_worker, worker_in) = std::sync::mpsc::channel::<time::TCase>();
            let (worker_out, from_worker) = std::sync::mpsc::channel();
            std::thread::spawn(move || {
                for case in worker_in {
                    worker_out.send(time::run_tcase(&case)).unwrap();
                }
            });
            for line in std::io::BufReader::new(inp).lines() {
                let line = line.unwrap();
                if line.trim().is_empty() {
                    continue;
                }
                let case: time::TCase = serde_json::from_str(&line).expect("bad timer case");
                // timers are made on the main thread, on a long-lived worker and on fresh threads in turn: ids
                // are promised to be unique in the process, not per thread
                ncase += 1;
                let lines = match ncase % 4 {
                    1 => std::thread::scope(|s| s.spawn(|| time::run_tcase(&case)).join().expect("timer case panicked")),
                    2 => {
                        to_worker.send(case).unwrap();
                        from_worker.recv().expect("timer worker died")
                    }
                    _ => time::run_tcase(&case),
                };
                for l in lines {
                    serde_json::to_writer(&mut w, &l).unwrap();
                    w.write_all(b"\n").unwrap();
                }
            }
            w.flush().unwrap();
        }
        Some("caps") => {
            // caps <cases.ndjson> <out.ndjson> <nconc>: only failures and a summary are written
            let inp = std::fs::File::open(&args[2]).expect("open cases");
            let out = std::fs::File::create(&args[3]).expect("create out");
            let nconc: usize = args.get(4).and_then(|s| s.parse().ok()).unwrap_or(3);
            let mut w = BufWriter::new(out);
            let (mut n, mut bad, mut known) = (0u64, 0u64, 0u64);
            for line in std::io::BufReader::new(inp).lines() {
                let line = line.unwrap();
                if line.trim().is_empty() {
                    continue;
                }
                let case: serde_json::Value = serde_json::from_str(&line).expect("bad case");
                for r in caps::run_case(&case, nconc) {
                    n += 1;
                    if r["ok"] != true {
                        if r["known"].is_null() {
                            bad += 1;
                        } else {
                            known += 1;
                        }
                        if (r["known"].is_null() && bad <= 3000) || (!r["known"].is_null() && known <= 300) {
                            serde_json::to_writer(&mut w, &r).unwrap();
                            w.write_all(b"\n").unwrap();
                        }
                    }
                }
            }
            serde_json::to_writer(&mut w, &serde_json::json!({"summary":true,"executions":n,"bad":bad,"known":known})).unwrap();
            w.write_all(b"\n").unwrap();
            w.flush().unwrap();
        }
        Some("det") => {
            // det <histories.ndjson> <out.ndjson> <repeats>
            let inp = std::fs::File::open(&args[2]).expect("open histories");
            let out = std::fs::File::create(&args[3]).expect("create out");
            let reps: usize = args.get(4).and_then(|s| s.parse().ok()).unwrap_or(2);
            let mut w = BufWriter::new(out);
            for line in std::io::BufReader::new(inp).lines() {
                let line = line.unwrap();
                if line.trim().is_empty() {
                    continue;
                }
                let steps: Vec<det::DStep> = serde_json::from_str(&line).expect("bad history");
                let runs: Vec<serde_json::Value> = (0..reps).map(|_| det::replay(&steps)).collect();
                serde_json::to_writer(&mut w, &serde_json::json!({"runs": runs})).unwrap();
                w.write_all(b"\n").unwrap();
            }
            w.flush().unwrap();
        }
        Some("mt") => {
            // mt <cases.ndjson> <out.ndjson>: forced interleavings, one record per case
            let inp = std::fs::File::open(&args[2]).expect("open cases");
            let out = std::fs::File::create(&args[3]).expect("create out");
            let mut w = BufWriter::new(out);
            let mut refs: std::collections::HashMap<(String, usize), serde_json::Value> = Default::default();
            for line in std::io::BufReader::new(inp).lines() {
                let line = line.unwrap();
                if line.trim().is_empty() {
                    continue;
                }
                let case: mt::MtCase = serde_json::from_str(&line).expect("bad mt case");
                let key = (case.scenario.clone(), case.threads);
                let reference = refs
                    .entry(key)
                    .or_insert_with(|| mt::run_mt(&case, false)["agg"].clone())
                    .clone();
                let mut r = mt::run_mt(&case, true);
                let ok = r.get("stuck").is_none() && r["agg"] == reference;
                r["ok"] = serde_json::json!(ok);
                if !ok {
                    r["ref_agg"] = reference;
                    r["case"] = serde_json::to_value(&case).unwrap();
                }
                serde_json::to_writer(&mut w, &r).unwrap();
                w.write_all(b"\n").unwrap();
            }
            w.flush().unwrap();
        }
        Some("tconv") => {
            // tconv <rows.ndjson> <out.ndjson>
            let inp = std::fs::File::open(&args[2]).expect("open rows");
            let out = std::fs::File::create(&args[3]).expect("create out");
            let mut w = BufWriter::new(out);
            std::panic::set_hook(Box::new(|_| {}));
            for line in std::io::BufReader::new(inp).lines() {
                let line = line.unwrap();
                if line.trim().is_empty() {
                    continue;
                }
                let row: tconv::Row = serde_json::from_str(&line).expect("bad row");
                if let Some(o) = tconv::run_row(&row) {
                    serde_json::to_writer(&mut w, &o).unwrap();
                    w.write_all(b"\n").unwrap();
                }
            }
            w.flush().unwrap();
        }
        Some("exp") => exp::flat(),
        Some("mtstress") => {
            // mtstress <scenario> <threads> <iterations> <out.ndjson>
            let r = mt::run_stress(&args[2], args[3].parse().unwrap(), args[4].parse().unwrap());
            std::fs::write(&args[5], serde_json::to_string(&r).unwrap() + "\n").unwrap();
        }
        Some("mtenum") => {
            // mtenum <scenario> <threads> <max_preemptions> <out.ndjson> [stride]
            let scenario = args[2].clone();
            let k: usize = args[3].parse().unwrap();
            let p: usize = args[4].parse().unwrap();
            let stride: usize = args.get(6).and_then(|s| s.parse().ok()).unwrap_or(1);
            let out = std::fs::File::create(&args[5]).expect("create out");
            let mut w = BufWriter::new(out);
            let base = mt::MtCase { name: "p0".into(), scenario: scenario.clone(), threads: k, sched: vec![], preempt: Some(vec![]) };
            let reference = mt::run_mt(&base, false)["agg"].clone();
            let r0 = mt::run_mt(&base, true);
            let steps = r0["executed"].as_array().map(|a| a.len()).unwrap_or(0);
            let mut total = 0u64;
            let mut bad = 0u64;
            let mut distinct: std::collections::HashSet<String> = Default::default();
            // all preemption lists with at most p entries, positions increasing
            fn rec(pos_from: usize, steps: usize, k: usize, left: usize, stride: usize, cur: &mut Vec<(usize, usize)>, f: &mut dyn FnMut(&Vec<(usize, usize)>)) {
                f(cur);
                if left == 0 {
                    return;
                }
                let mut at = pos_from;
                while at < steps + 40 {
                    for to in 1..=k {
                        cur.push((at, to));
                        rec(at + 1, steps, k, left - 1, stride, cur, f);
                        cur.pop();
                    }
                    at += stride;
                }
            }
            let mut cur = vec![];
            rec(0, steps, k, p, stride, &mut cur, &mut |pre| {
                let case = mt::MtCase { name: format!("pre{:?}", pre), scenario: scenario.clone(), threads: k, sched: vec![], preempt: Some(pre.clone()) };
                let mut r = mt::run_mt(&case, true);
                total += 1;
                distinct.insert(r["executed"].to_string());
                let ok = r.get("stuck").is_none() && r["agg"] == reference;
                if !ok {
                    bad += 1;
                    if bad <= 5 {
                        r["ok"] = serde_json::json!(false);
                        r["ref_agg"] = reference.clone();
                        r["case"] = serde_json::to_value(&case).unwrap();
                        serde_json::to_writer(&mut w, &r).unwrap();
                        w.write_all(b"\n").unwrap();
                    }
                }
            });
            serde_json::to_writer(&mut w, &serde_json::json!({"summary":true,"scenario":scenario,"threads":k,"max_preemptions":p,
                "base_steps":steps,"schedules":total,"distinct_interleavings":distinct.len(),"bad":bad,
                "sample": r0["points"]})).unwrap();
            w.write_all(b"\n").unwrap();
            w.flush().unwrap();
        }
        _ => {
            eprintln!("usage: harness run <cases> <trace>");
            std::process::exit(2);
        }
    }
}
