mod alloc;
mod app;
mod drive;
mod dsl;
mod legacy;

use std::io::{BufRead, BufWriter, Write};

#[global_allocator]
static GLOBAL: alloc::Counting = alloc::Counting;

fn main() {
    std::panic::set_hook(Box::new(|_| {})); // panics in code under test are data
    let args: Vec<String> = std::env::args().collect();
    match args.get(1).map(String::as_str) {
        Some("run") => {
            // run <cases.ndjson> <trace.ndjson>
            let inp = std::fs::File::open(&args[2]).expect("open cases");
            let out = std::fs::File::create(&args[3]).expect("create trace");
            let mut w = BufWriter::new(out);
            let mut n = 0;
            for line in std::io::BufReader::new(inp).lines() {
                let line = line.unwrap();
                if line.trim().is_empty() {
                    continue;
                }
                let case: drive::Case = serde_json::from_str(&line).expect("bad case");
                for l in drive::run_case(&case) {
                    serde_json::to_writer(&mut w, &l).unwrap();
                    w.write_all(b"\n").unwrap();
                }
                n += 1;
            }
            w.flush().unwrap();
            eprintln!("ran {n} cases");
        }
        _ => {
            eprintln!("usage: harness run <cases> <trace>");
            std::process::exit(2);
        }
    }
}
