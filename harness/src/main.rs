fn main() { println!("ok"); }
