//! C08: concurrent callers into one core, with interleavings forced through the schedule points.
//!
//! Scenario `stream_bridge` (the one CruxMT.tla models): the app subscribed to a stream; k threads
//! each deliver one item through Bridge::handle_response on the same id.
//! Scenario `join_core`: a task joins two one-shot requests; two threads resolve one each through
//! Core::resolve (typed API), a third may deliver an event.
use std::panic::{catch_unwind, AssertUnwindSafe};
use std::sync::{Arc, Mutex};

use bincode::Options;
use crux_core::bridge::Bridge;
use crux_core::Core;
use serde::{Deserialize, Serialize};
use serde_json::{json, Value};

use crate::app::{install_case, Effect, EffectFfi, Event, Table, VApp, ViewModel};
use crate::dsl::{Cmd, Root, Sink};
use crate::sched::Ctl;

#[derive(Deserialize, Serialize, Clone, Debug)]
pub struct MtCase {
    #[serde(default)]
    pub name: String,
    pub scenario: String,
    pub threads: usize,
    /// thread choices, 1-based (a TLC behaviour projected to process ids); after it is exhausted
    /// the remaining steps run round-robin
    #[serde(default)]
    pub sched: Vec<usize>,
    /// preemption-bounded mode: (global step index, thread to switch to), 1-based threads
    #[serde(default)]
    pub preempt: Option<Vec<(usize, usize)>>,
}

fn opts() -> impl bincode::Options + Copy {
    bincode::DefaultOptions::new().with_fixint_encoding().allow_trailing_bytes()
}

fn stream_prog() -> Cmd {
    Cmd::Chain {
        id: 1,
        tid: 2,
        root: Root { k: "stream".into(), tag: 1, val: 1 },
        stages: vec![],
        sink: Sink { tag: 2 },
    }
}

fn join_prog() -> Cmd {
    serde_json::from_value(json!({"k":"async","id":1,"tid":2,"code":[
        {"op":"join","leaves":[{"k":"req","tag":1,"src":{"c":1}},{"k":"req","tag":2,"src":{"c":1}}],"dst":[1,2]},
        {"op":"emit","tag":3,"src":{"r":1}},
        {"op":"emit","tag":4,"src":{"r":2}}]}))
    .unwrap()
}

fn all_prog(k: usize) -> Cmd {
    let cs: Vec<Value> = (0..k)
        .map(|i| {
            let b = 3 + 3 * i;
            json!({"tid": b, "c": {"k":"chain","id": b + 1,"tid": b + 2,
                   "root":{"k":"req","tag": 1 + 2 * i,"val":1},"stages":[],"sink":{"tag": 2 + 2 * i}}})
        })
        .collect();
    serde_json::from_value(json!({"k":"all","id":1,"tid":2,"cs":cs})).unwrap()
}

/// one command, k sibling tasks (ctx.spawn), each a request followed by an event: the flat shape
/// CruxMT's "all" scenario models (Command::all nests one command per member instead)
fn flat_prog(k: usize) -> Cmd {
    let code: Vec<Value> = (0..k)
        .map(|i| json!({"op":"spawn","h": 1 + (i % 3),"script":{"tid": 3 + i,"code":[
            {"op":"req","tag": 1 + 2 * i,"src":{"c":1},"dst":1},
            {"op":"emit","tag": 2 + 2 * i,"src":{"r":1}}]}}))
        .collect();
    serde_json::from_value(json!({"k":"async","id":1,"tid":2,"code":code})).unwrap()
}

fn log_json(v: &ViewModel) -> Vec<Value> {
    v.log
        .iter()
        .map(|e| match e {
            Event::Run(p) => json!({"kind":"run","p":p}),
            Event::Noop => json!({"kind":"noop"}),
            Event::Em { o, tag, val } => json!({"kind":"ev","o":o,"tag":tag,"val":val}),
            Event::Data(d) => json!({"kind":"data","n":d.len()}),
            Event::Text(t) => json!({"kind":"text","n":t.len()}),
        })
        .collect()
}

/// which threads may be granted a step: a thread about to take the registry mutex must wait for a
/// thread that is parked inside ResolveRegistry::resume (it would block on the real mutex)
fn grantable(parked: &[Option<&'static str>], i: usize) -> bool {
    match parked[i] {
        None => false,
        Some("call_begin") => !parked
            .iter()
            .enumerate()
            .any(|(j, p)| j != i && matches!(p, Some(n) if n.starts_with("cw_"))),
        Some(_) => true,
    }
}

struct Driven {
    executed: Vec<usize>,
    stuck: Option<usize>,
    skipped: usize,
}

/// drive k parked threads to completion
fn drive(ctl: &Arc<Ctl>, k: usize, case: &MtCase) -> Driven {
    let mut d = Driven { executed: vec![], stuck: None, skipped: 0 };
    if let Err(s) = ctl.wait_all_parked() {
        d.stuck = Some(s.0);
        return d;
    }
    let step = |d: &mut Driven, i: usize| -> bool {
        match ctl.step(i) {
            Ok(()) => {
                d.executed.push(i + 1);
                true
            }
            Err(s) => {
                d.stuck = Some(s.0);
                false
            }
        }
    };
    if let Some(pre) = &case.preempt {
        // run the current thread until it finishes, blocks or spins; switch at the given steps
        let mut cur = 0usize;
        let mut same = (None, 0usize);
        loop {
            let parked = ctl.parked();
            if parked.iter().all(|p| p.is_none()) {
                break;
            }
            let n = d.executed.len();
            if let Some((_, to)) = pre.iter().find(|(at, _)| *at == n) {
                if grantable(&parked, to - 1) {
                    cur = to - 1;
                    same = (None, 0);
                }
            }
            let spinning = same.1 >= 3;
            if !grantable(&parked, cur) || spinning {
                // next grantable thread after cur
                let nxt = (1..=k).map(|o| (cur + o) % k).find(|j| grantable(&parked, *j));
                match nxt {
                    Some(j) => cur = j,
                    None => {
                        d.stuck = Some(cur);
                        break;
                    }
                }
                same = (None, 0);
            }
            let at = parked[cur];
            if same.0 == at {
                same.1 += 1;
            } else {
                same = (at, 1);
            }
            if !step(&mut d, cur) {
                break;
            }
            if d.executed.len() > 5000 {
                d.stuck = Some(cur);
                break;
            }
        }
        return d;
    }
    for &t in &case.sched {
        let parked = ctl.parked();
        if t == 0 || t > k || !grantable(&parked, t - 1) {
            d.skipped += 1;
            continue;
        }
        if !step(&mut d, t - 1) {
            return d;
        }
    }
    // fair round-robin completion
    let mut cur = 0usize;
    loop {
        let parked = ctl.parked();
        if parked.iter().all(|p| p.is_none()) {
            break;
        }
        match (0..k).map(|o| (cur + o) % k).find(|j| grantable(&parked, *j)) {
            Some(j) => {
                if !step(&mut d, j) {
                    break;
                }
                cur = (j + 1) % k;
            }
            None => {
                d.stuck = Some(cur);
                break;
            }
        }
        if d.executed.len() > 20000 {
            d.stuck = Some(cur);
            break;
        }
    }
    d
}

fn table_for(scn: &str) -> Table {
    table_for_k(scn, 2)
}

fn table_for_k(scn: &str, k: usize) -> Table {
    Table {
        progs: vec![match scn {
            "stream_bridge" => stream_prog(),
            "all_core" => all_prog(k),
            "flat_core" => flat_prog(k),
            _ => join_prog(),
        }],
        follow: Default::default(),
        legacy: false,
    }
}

/// Outcome of one run in a form that is the same for every interleaving that is equivalent to a
/// sequential order of the calls (events sorted; results per call).
fn aggregate(results: &[Value], log: &[Value], probe: &Value) -> Value {
    // the per-task sequence number inside the stamp depends on the order of delivery: leave it out
    let mut evs: Vec<String> = log
        .iter()
        .map(|e| {
            let mut e = e.clone();
            if let Some(o) = e.get_mut("o").and_then(|o| o.as_array_mut()) {
                o.truncate(2);
            }
            e.to_string()
        })
        .collect();
    evs.sort();
    let mut res: Vec<String> = results.iter().map(|e| e.to_string()).collect();
    res.sort();
    json!({"results": res, "log_sorted": evs, "probe": probe})
}

fn run_stream_bridge(case: &MtCase, controlled: bool) -> Value {
    let _ctx = install_case(table_for("stream_bridge"));
    let bridge = Arc::new(Bridge::<VApp>::new(Core::new()));
    let out = bridge.process_event(&opts().serialize(&Event::Run(0)).unwrap()).expect("run");
    let reqs: Vec<crux_core::bridge::Request<EffectFfi>> = opts().deserialize(&out).unwrap();
    let id = reqs[0].id.0;
    let k = case.threads;
    let results: Arc<Mutex<Vec<Value>>> = Arc::new(Mutex::new(vec![Value::Null; k]));
    let mut driven = Driven { executed: vec![], stuck: None, skipped: 0 };
    let mut hist = vec![];
    let call = move |bridge: &Bridge<VApp>, i: usize| -> Value {
        let r = catch_unwind(AssertUnwindSafe(|| {
            bridge.handle_response(id, &opts().serialize(&(10 + i as u32)).unwrap())
        }));
        match r {
            Ok(Ok(bytes)) => {
                let reqs: Vec<crux_core::bridge::Request<EffectFfi>> = opts().deserialize(&bytes).unwrap();
                json!({"res":"ok","effs":reqs.len()})
            }
            Ok(Err(e)) => json!({"res": format!("{e}")}),
            Err(_) => json!({"res":"panic"}),
        }
    };
    if controlled {
        let ctl = Ctl::new(k);
        ctl.install();
        let mut hs = vec![];
        for i in 0..k {
            let (ctl, bridge, results) = (ctl.clone(), bridge.clone(), results.clone());
            hs.push(std::thread::spawn(move || {
                ctl.register(i);
                ctl.point("call_begin");
                let r = call(&bridge, i);
                ctl.point("call_end");
                results.lock().unwrap()[i] = r;
                ctl.finish();
            }));
        }
        driven = drive(&ctl, k, case);
        if driven.stuck.is_some() {
            // cannot join safely; report and leak the threads
            Ctl::uninstall();
            return json!({"name":case.name,"stuck":driven.stuck,"executed":driven.executed,
                          "parked": ctl.parked().iter().map(|p| p.unwrap_or("-")).collect::<Vec<_>>()});
        }
        for h in hs {
            let _ = h.join();
        }
        Ctl::uninstall();
        hist = ctl.histories();
    } else {
        for i in 0..k {
            let r = call(&bridge, i);
            results.lock().unwrap()[i] = r;
        }
    }
    // sequential probes: is the subscription alive, is the core quiescent
    let view: ViewModel = opts().deserialize(&bridge.view().unwrap()).unwrap();
    let log = log_json(&view);
    let p1 = match bridge.handle_response(id, &opts().serialize(&99u32).unwrap()) {
        Ok(b) => {
            let reqs: Vec<crux_core::bridge::Request<EffectFfi>> = opts().deserialize(&b).unwrap();
            json!({"res":"ok","effs":reqs.len()})
        }
        Err(e) => json!({"res": format!("{e}")}),
    };
    let view2: ViewModel = opts().deserialize(&bridge.view().unwrap()).unwrap();
    let noop = bridge.process_event(&opts().serialize(&Event::Noop).unwrap()).map(|b| b.len()).unwrap_or(9999);
    let probe = json!({"late": p1, "log_growth": view2.log.len() - view.log.len(),
                       "last": log_json(&view2).last().cloned(),
                       "noop_bytes": noop, "xt": bridge.verif_executor_tasks(),
                       "reg": bridge.verif_registry().len()});
    let results = results.lock().unwrap().clone();
    json!({"name":case.name,"scenario":case.scenario,"threads":k,
           "agg": aggregate(&results, &log, &probe),
           "executed": driven.executed, "skipped": driven.skipped,
           "points": hist, "log": log})
}

fn run_join_core(case: &MtCase, controlled: bool) -> Value {
    let is_all = case.scenario == "all_core" || case.scenario == "flat_core";
    let k = if is_all { case.threads.max(2) } else { case.threads.min(3).max(2) };
    let _ctx = install_case(table_for_k(&case.scenario, k));
    let core = Arc::new(Core::<VApp>::new());
    let effs = core.process_event(Event::Run(0));
    let reqs: Vec<Option<crux_core::Request<crate::app::VOp>>> =
        effs.into_iter().map(|e| { let Effect::Op(r) = e; Some(r) }).collect();
    let nreq = reqs.len();
    let results: Arc<Mutex<Vec<Value>>> = Arc::new(Mutex::new(vec![Value::Null; k]));
    let slots = Arc::new(Mutex::new(reqs));
    let call = move |core: &Core<VApp>, i: usize, slots: &Mutex<Vec<Option<crux_core::Request<crate::app::VOp>>>>| -> Value {
        let r = catch_unwind(AssertUnwindSafe(|| {
            if i < nreq {
                let mut req = slots.lock().unwrap()[i].take().unwrap();
                match core.resolve(&mut req, 10 + i as u32) {
                    Ok(e) => json!({"res":"ok","effs":e.len()}),
                    Err(e) => json!({"res":format!("{e}")}),
                }
            } else {
                let e = core.process_event(Event::Noop);
                json!({"res":"ok","effs":e.len()})
            }
        }));
        r.unwrap_or_else(|_| json!({"res":"panic"}))
    };
    let mut driven = Driven { executed: vec![], stuck: None, skipped: 0 };
    let mut hist = vec![];
    if controlled {
        let ctl = Ctl::new(k);
        ctl.install();
        let mut hs = vec![];
        for i in 0..k {
            let (ctl, core, results, slots, call) = (ctl.clone(), core.clone(), results.clone(), slots.clone(), call.clone());
            hs.push(std::thread::spawn(move || {
                ctl.register(i);
                ctl.point("call_begin2");
                let r = call(&core, i, &slots);
                ctl.point("call_end");
                results.lock().unwrap()[i] = r;
                ctl.finish();
            }));
        }
        driven = drive(&ctl, k, case);
        if driven.stuck.is_some() {
            Ctl::uninstall();
            return json!({"name":case.name,"stuck":driven.stuck,"executed":driven.executed,
                          "parked": ctl.parked().iter().map(|p| p.unwrap_or("-")).collect::<Vec<_>>()});
        }
        for h in hs {
            let _ = h.join();
        }
        Ctl::uninstall();
        hist = ctl.histories();
    } else {
        for i in 0..k {
            let r = call(&core, i, &slots);
            results.lock().unwrap()[i] = r;
        }
    }
    let view = core.view();
    let log = log_json(&view);
    let noop = core.process_event(Event::Noop).len();
    let probe = json!({"noop_effs": noop, "xt": core.verif_executor_tasks()});
    let results = results.lock().unwrap().clone();
    // per-call effect counts are not determined by the interleaving; only their sum is
    let total: u64 = results.iter().map(|r| r["effs"].as_u64().unwrap_or(0)).sum();
    let res_only: Vec<Value> = results.iter().map(|r| json!(r["res"])).collect();
    let mut agg = aggregate(&res_only, &log, &probe);
    agg["total_effs"] = json!(total);
    json!({"name":case.name,"scenario":case.scenario,"threads":k,"agg":agg,
           "executed": driven.executed, "skipped": driven.skipped, "points": hist, "log": log})
}

pub fn run_mt(case: &MtCase, controlled: bool) -> Value {
    match case.scenario.as_str() {
        "stream_bridge" => run_stream_bridge(case, controlled),
        "join_core" | "all_core" | "flat_core" => run_join_core(case, controlled),
        other => panic!("unknown scenario {other}"),
    }
}

/// Free-running stress: the same scenarios on real threads without the controller, many iterations
/// with swept start offsets; every iteration is judged by the same sequential-order aggregate.
/// Complements the forced schedules where a race window lies inside one segment between two points.
pub fn run_stress(scenario: &str, threads: usize, iters: usize) -> Value {
    let base = MtCase { name: "stress".into(), scenario: scenario.into(), threads, sched: vec![], preempt: None };
    let reference = run_mt(&base, false)["agg"].clone();
    let _ = table_for;
    let mut bad = 0usize;
    let mut first = Value::Null;
    for it in 0..iters {
        let r = match scenario {
            "stream_bridge" => stress_stream(threads, it),
            _ => stress_core(scenario, threads, it),
        };
        if r != reference {
            bad += 1;
            if first.is_null() {
                first = json!({"iteration": it, "agg": r});
            }
        }
    }
    json!({"summary": true, "stress": true, "scenario": scenario, "threads": threads, "iterations": iters,
           "bad": bad, "first_bad": first, "ref_agg": reference})
}

fn spin(n: usize) {
    for _ in 0..n {
        std::hint::spin_loop();
    }
}

fn stress_stream(k: usize, it: usize) -> Value {
    let _ctx = install_case(table_for("stream_bridge"));
    let bridge = Bridge::<VApp>::new(Core::new());
    let out = bridge.process_event(&opts().serialize(&Event::Run(0)).unwrap()).expect("run");
    let reqs: Vec<crux_core::bridge::Request<EffectFfi>> = opts().deserialize(&out).unwrap();
    let id = reqs[0].id.0;
    let barrier = std::sync::Barrier::new(k);
    let results: Vec<Value> = std::thread::scope(|sc| {
        let hs: Vec<_> = (0..k)
            .map(|i| {
                let (bridge, barrier) = (&bridge, &barrier);
                sc.spawn(move || {
                    barrier.wait();
                    spin(if i == 0 { it % 97 } else { (it / 97) % 97 } * 3);
                    match catch_unwind(AssertUnwindSafe(|| bridge.handle_response(id, &opts().serialize(&(10 + i as u32)).unwrap()))) {
                        Ok(Ok(b)) => {
                            let r: Vec<crux_core::bridge::Request<EffectFfi>> = opts().deserialize(&b).unwrap();
                            json!({"res":"ok","effs":r.len()})
                        }
                        Ok(Err(e)) => json!({"res": format!("{e}")}),
                        Err(_) => json!({"res":"panic"}),
                    }
                })
            })
            .collect();
        hs.into_iter().map(|h| h.join().unwrap_or(json!({"res":"panic"}))).collect()
    });
    // (whatever the concurrent phase did to the bridge, the probes afterwards must not take the process down:
    // a panic in them is an outcome like any other)
    let after = catch_unwind(AssertUnwindSafe(|| {
        let view: ViewModel = opts().deserialize(&bridge.view().unwrap()).unwrap();
        let log = log_json(&view);
        let p1 = match bridge.handle_response(id, &opts().serialize(&99u32).unwrap()) {
            Ok(b) => {
                let r: Vec<crux_core::bridge::Request<EffectFfi>> = opts().deserialize(&b).unwrap();
                json!({"res":"ok","effs":r.len()})
            }
            Err(e) => json!({"res": format!("{e}")}),
        };
        let view2: ViewModel = opts().deserialize(&bridge.view().unwrap()).unwrap();
        let noop = bridge.process_event(&opts().serialize(&Event::Noop).unwrap()).map(|b| b.len()).unwrap_or(9999);
        let probe = json!({"late": p1, "log_growth": view2.log.len() - view.log.len(),
                           "last": log_json(&view2).last().cloned(),
                           "noop_bytes": noop, "xt": bridge.verif_executor_tasks(),
                           "reg": bridge.verif_registry().len()});
        (log, probe)
    }));
    match after {
        Ok((log, probe)) => aggregate(&results, &log, &probe),
        Err(_) => aggregate(&results, &[], &json!({"late": {"res": "panic"}})),
    }
}

fn stress_core(scenario: &str, k: usize, it: usize) -> Value {
    let k = if scenario == "all_core" || scenario == "flat_core" { k.max(2) } else { k.min(3).max(2) };
    let _ctx = install_case(table_for_k(scenario, k));
    let core = Core::<VApp>::new();
    let effs = core.process_event(Event::Run(0));
    let mut owned: Vec<Option<crux_core::Request<crate::app::VOp>>> =
        effs.into_iter().map(|e| { let Effect::Op(r) = e; Some(r) }).collect();
    owned.resize_with(k.max(owned.len()), || None);
    let barrier = std::sync::Barrier::new(k);
    let stop = std::sync::atomic::AtomicBool::new(false);
    let results: Vec<Value> = std::thread::scope(|sc| {
        // a shell thread that keeps reading the view while the others call in (it holds the model's read lock
        // for the length of the app's view function; the callers must wait for it, not give up on their events)
        let viewer = {
            let (core, stop) = (&core, &stop);
            sc.spawn(move || {
                let mut n = 0u64;
                while !stop.load(std::sync::atomic::Ordering::SeqCst) {
                    n += core.view().log.len() as u64;
                }
                n
            })
        };
        let hs: Vec<_> = (0..k)
            .map(|i| {
                let (core, barrier) = (&core, &barrier);
                let mine = owned[i].take();
                sc.spawn(move || {
                    barrier.wait();
                    spin(if i == 0 { it % 97 } else { (it / 97) % 97 } * 3);
                    let r = catch_unwind(AssertUnwindSafe(|| match mine {
                        Some(mut req) => match core.resolve(&mut req, 10 + i as u32) {
                            Ok(e) => json!({"res":"ok","effs":e.len()}),
                            Err(e) => json!({"res":format!("{e}")}),
                        },
                        None => json!({"res":"ok","effs":core.process_event(Event::Noop).len()}),
                    }));
                    r.unwrap_or_else(|_| json!({"res":"panic"}))
                })
            })
            .collect();
        let out = hs.into_iter().map(|h| h.join().unwrap_or(json!({"res":"panic"}))).collect();
        stop.store(true, std::sync::atomic::Ordering::SeqCst);
        let _ = viewer.join();
        out
    });
    let view = core.view();
    let log = log_json(&view);
    let noop = core.process_event(Event::Noop).len();
    let probe = json!({"noop_effs": noop, "xt": core.verif_executor_tasks()});
    let total: u64 = results.iter().map(|r| r["effs"].as_u64().unwrap_or(0)).sum();
    let res_only: Vec<Value> = results.iter().map(|r| json!(r["res"])).collect();
    let mut agg = aggregate(&res_only, &log, &probe);
    agg["total_effs"] = json!(total);
    agg
}
