//! The shared program DSL (DESIGN.md 2.3): serde AST + interpreter that builds real
//! `crux_core::Command`s through the public API only.
use std::collections::HashMap;
use std::future::Future;
use std::pin::Pin;
use std::sync::atomic::{AtomicU32, Ordering};
use std::sync::{Arc, Mutex};
use std::task::{Context, Poll};

use crux_core::command::{CommandContext, RequestBuilder, StreamBuilder};
use crux_core::Command;
use futures::future::BoxFuture;
use futures::stream::BoxStream;
use futures::{FutureExt, StreamExt};
use serde::{Deserialize, Serialize};

use crate::app::{Effect, Event, VOp};

pub type Cmd_ = Command<Effect, Event>;

#[derive(Serialize, Deserialize, Clone, Debug)]
#[serde(untagged)]
pub enum Src {
    C { c: u32 },
    R { r: u32 },
}

#[derive(Serialize, Deserialize, Clone, Debug)]
pub struct Root {
    pub k: String, // "req" | "stream"
    pub tag: u32,
    pub val: u32,
}

#[derive(Serialize, Deserialize, Clone, Debug)]
pub struct Stage {
    pub k: String, // "map" | "then_req" | "then_stream"
    pub f: String,
    #[serde(default)]
    pub tag: u32,
    /// then_stream only: the inner stream continues with then_request(itag) unless 0
    #[serde(default, skip_serializing_if = "is_zero")]
    pub itag: u32,
}

fn is_zero(v: &u32) -> bool {
    *v == 0
}

#[derive(Serialize, Deserialize, Clone, Debug)]
pub struct Sink {
    pub tag: u32,
}

#[derive(Serialize, Deserialize, Clone, Debug)]
pub struct AllItem {
    pub tid: u32,
    pub c: Cmd,
}

#[derive(Serialize, Deserialize, Clone, Debug)]
#[serde(tag = "k", rename_all = "snake_case")]
pub enum Cmd {
    Done { id: u32, tid: u32 },
    Event { id: u32, tid: u32, tag: u32, val: u32 },
    Notify { id: u32, tid: u32, tag: u32, val: u32 },
    Chain { id: u32, tid: u32, root: Root, stages: Vec<Stage>, sink: Sink },
    Then { id: u32, tid: u32, a: Box<Cmd>, b: Box<Cmd> },
    And { id: u32, tid: u32, a: Box<Cmd>, b: Box<Cmd> },
    All { id: u32, tid: u32, cs: Vec<AllItem> },
    MapEffect { id: u32, tid: u32, f: String, c: Box<Cmd> },
    MapEvent { id: u32, tid: u32, f: String, c: Box<Cmd> },
    /// Command::from(c) / c.into(): map_effect(Into::into) inside (id2, tid2), map_event(Into::into) outside (id, tid)
    Into { id: u32, tid: u32, id2: u32, tid2: u32, via_from: bool, c: Box<Cmd> },
    Async { id: u32, tid: u32, code: Vec<Instr> },
}

#[derive(Serialize, Deserialize, Clone, Debug)]
pub struct Script {
    pub tid: u32,
    pub code: Vec<Instr>,
}

#[derive(Serialize, Deserialize, Clone, Debug)]
#[serde(tag = "k", rename_all = "snake_case")]
pub enum Leaf {
    /// l: use the capability API's future (CapabilityContext) instead of the command context's
    Req { tag: u32, src: Src, #[serde(default, skip_serializing_if = "is_false")] l: bool },
    Next { s: u32 },
    Joinh { h: u32 },
    /// next message of the task-to-task channel in slot c (0 when it is closed and empty)
    Recv { c: u32 },
    /// next message of the case-wide channel g
    Grecv { g: u32 },
}

fn is_false(b: &bool) -> bool {
    !*b
}

#[derive(Serialize, Deserialize, Clone, Debug)]
#[serde(tag = "op", rename_all = "snake_case")]
pub enum Instr {
    Emit { tag: u32, src: Src },
    Notify { tag: u32, src: Src },
    Req { tag: u32, src: Src, dst: u32, #[serde(default, skip_serializing_if = "is_false")] l: bool },
    Open { tag: u32, src: Src, s: u32, #[serde(default, skip_serializing_if = "is_false")] l: bool },
    Next { s: u32, dst: u32, #[serde(rename = "else")] els: u32 },
    Goto { pc: u32 },
    Map { f: String, reg: u32 },
    Spawn { script: Script, h: u32 },
    Abort { h: u32 },
    /// abort the command with this id (of the same program instance) through its AbortHandle
    Abortc { id: u32 },
    Joinh { h: u32 },
    Join { leaves: Vec<Leaf>, dst: Vec<u32> },
    Select { leaves: Vec<Leaf>, dst: u32, idx: u32 },
    Yield,
    /// create an unbounded futures mpsc channel in slot c; tasks spawned afterwards share the receiver and
    /// get a clone of the sender
    Chan { c: u32 },
    Send { c: u32, src: Src },
    /// drop this task's sender of the channel in slot c
    Closec { c: u32 },
    Recv { c: u32, dst: u32, #[serde(rename = "else")] els: u32 },
    /// non-blocking read of the stream in slot s (`next().now_or_never()`): the item, or 0 when there is
    /// none right now (or never will be); the task does not suspend
    Trynext { s: u32, dst: u32 },
    /// the same for the task-to-task channel in slot c
    Tryrecv { c: u32, dst: u32 },
    /// send on / wait for the case-wide channel g (shared by every task of every command of the case)
    Gsend { g: u32, src: Src },
    Grecv { g: u32, dst: u32 },
}

pub fn apply_f(f: &str, v: u32) -> u32 {
    match f {
        "inc" => v.wrapping_add(1),
        "dbl" => v.wrapping_mul(2),
        _ => v,
    }
}

/// Abort handles of every command node built so far, by (inst, id).
/// (`AbortHandle` and `JoinHandle` live in a private module of crux_core and cannot be named
/// from outside, so they are kept behind closures.)
pub type AbortFn = Arc<dyn Fn() + Send + Sync>;
pub type Aborts = Arc<Mutex<HashMap<(u32, u32), AbortFn>>>;

#[derive(Clone)]
pub struct JH {
    abort: AbortFn,
    fut: Arc<dyn Fn() -> BoxFuture<'static, ()> + Send + Sync>,
}

// ---------------------------------------------------------------------------------------------

type RB = RequestBuilder<Effect, Event, BoxFuture<'static, u32>>;
type SB = StreamBuilder<Effect, Event, BoxStream<'static, u32>>;

fn erase_r<F>(b: RequestBuilder<Effect, Event, F>) -> RB
where
    F: Future<Output = u32> + Send + 'static,
{
    RequestBuilder::new(move |ctx| b.into_future(ctx).boxed())
}

fn erase_s<S>(b: StreamBuilder<Effect, Event, S>) -> SB
where
    S: futures::Stream<Item = u32> + Send + 'static,
{
    StreamBuilder::new(move |ctx| b.into_stream(ctx).boxed())
}

pub struct Builder {
    pub inst: u32,
    pub aborts: Aborts,
}

impl Builder {
    fn reg(&self, id: u32, c: &Cmd_) {
        let h = c.abort_handle();
        self.aborts
            .lock()
            .unwrap()
            .insert((self.inst, id), Arc::new(move || h.abort()));
    }

    pub fn build(&self, c: &Cmd) -> Cmd_ {
        let inst = self.inst;
        match c {
            Cmd::Done { id, .. } => {
                let c = Command::done();
                self.reg(*id, &c);
                c
            }
            Cmd::Event { id, tid, tag, val } => {
                let c = Command::event(Event::Em { o: [inst, *tid, 0], tag: *tag, val: *val });
                self.reg(*id, &c);
                c
            }
            Cmd::Notify { id, tid, tag, val } => {
                let c: Cmd_ =
                    Command::notify_shell(VOp { o: [inst, *tid, 0], tag: *tag, val: *val, live: Default::default() }).into();
                self.reg(*id, &c);
                c
            }
            Cmd::Chain { id, tid, root, stages, sink } => {
                let c = self.build_chain(*tid, root, stages, sink);
                self.reg(*id, &c);
                c
            }
            Cmd::Then { id, a, b, .. } => {
                let c = self.build(a).then(self.build(b));
                self.reg(*id, &c);
                c
            }
            Cmd::And { a, b, .. } => self.build(a).and(self.build(b)),
            Cmd::All { id, cs, .. } => {
                let c = Command::all(cs.iter().map(|i| self.build(&i.c)).collect::<Vec<_>>());
                self.reg(*id, &c);
                c
            }
            Cmd::MapEffect { id, f, c, .. } => {
                let f = f.clone();
                let c = self.build(c).map_effect(move |mut e| {
                    let Effect::Op(req) = &mut e;
                    req.operation.val = apply_f(&f, req.operation.val);
                    e
                });
                self.reg(*id, &c);
                c
            }
            Cmd::MapEvent { id, f, c, .. } => {
                let f = f.clone();
                let c = self.build(c).map_event(move |e| match e {
                    Event::Em { o, tag, val } => Event::Em { o, tag, val: apply_f(&f, val) },
                    other => other,
                });
                self.reg(*id, &c);
                c
            }
            Cmd::Into { id, via_from, c, .. } => {
                let sub = self.build(c);
                let c: Cmd_ = if *via_from { Command::from(sub) } else { sub.into() };
                self.reg(*id, &c);
                c
            }
            Cmd::Async { id, tid, code } => {
                let code = Arc::new(code.clone());
                let env = TaskEnv::new(inst, *tid);
                let c = Command::new(move |ctx| run_script(ctx, code, env));
                self.reg(*id, &c);
                c
            }
        }
    }

    fn build_chain(&self, tid: u32, root: &Root, stages: &[Stage], sink: &Sink) -> Cmd_ {
        let inst = self.inst;
        let ctr = Arc::new(AtomicU32::new(0));
        let stamp = {
            let ctr = ctr.clone();
            move || [inst, tid, ctr.fetch_add(1, Ordering::SeqCst)]
        };
        let sink_tag = sink.tag;
        enum B {
            R(RB),
            S(SB),
        }
        let first = VOp { o: stamp(), tag: root.tag, val: root.val, live: Default::default() };
        let mut b = if root.k == "req" {
            B::R(erase_r(Command::request_from_shell(first)))
        } else {
            B::S(erase_s(Command::stream_from_shell(first)))
        };
        for st in stages {
            let f = st.f.clone();
            let stamp = stamp.clone();
            let (tag, itag) = (st.tag, st.itag);
            // the stream a then_stream stage opens for every item it is fed
            let inner = {
                let stamp = stamp.clone();
                let f = f.clone();
                move |x: u32| -> SB {
                    let s = Command::stream_from_shell(VOp { o: stamp(), tag, val: apply_f(&f, x), live: Default::default() });
                    if itag == 0 {
                        erase_s(s)
                    } else {
                        let stamp = stamp.clone();
                        erase_s(s.then_request(move |y| {
                            Command::request_from_shell(VOp { o: stamp(), tag: itag, val: y, live: Default::default() })
                        }))
                    }
                }
            };
            b = match (b, st.k.as_str()) {
                (B::R(rb), "map") => B::R(erase_r(rb.map(move |x| apply_f(&f, x)))),
                (B::R(rb), "then_stream") => B::S(erase_s(rb.then_stream(inner))),
                (B::R(rb), _) => B::R(erase_r(rb.then_request(move |x| {
                    Command::request_from_shell(VOp { o: stamp(), tag, val: apply_f(&f, x), live: Default::default() })
                }))),
                (B::S(sb), "map") => B::S(erase_s(sb.map(move |x| apply_f(&f, x)))),
                (B::S(sb), "then_stream") => B::S(erase_s(sb.then_stream(inner))),
                (B::S(sb), _) => B::S(erase_s(sb.then_request(move |x| {
                    Command::request_from_shell(VOp { o: stamp(), tag, val: apply_f(&f, x), live: Default::default() })
                }))),
            };
        }
        match b {
            B::R(rb) => rb.then_send(move |x| Event::Em { o: stamp(), tag: sink_tag, val: x }),
            B::S(sb) => sb.then_send(move |x| Event::Em { o: stamp(), tag: sink_tag, val: x }),
        }
    }
}

// ---------------------------------------------------------------------------------------------
// Script interpreter

type SharedStream = Arc<Mutex<BoxStream<'static, u32>>>;

#[derive(Clone)]
pub struct TaskEnv {
    inst: u32,
    tid: u32,
    seq: u32,
    regs: [u32; 5],
    streams: Vec<Option<SharedStream>>,
    handles: Vec<Option<JH>>,
    /// the capability context of the app's legacy capability, when hosted by a Core (mixed APIs)
    lctx: Option<crux_core::capability::CapabilityContext<VOp, Event>>,
    chans: Vec<Option<ChanH>>,
}

#[derive(Clone)]
struct ChanH {
    tx: Option<futures::channel::mpsc::UnboundedSender<u32>>,
    rx: Arc<Mutex<futures::channel::mpsc::UnboundedReceiver<u32>>>,
}

impl TaskEnv {
    pub fn new(inst: u32, tid: u32) -> Self {
        TaskEnv {
            inst,
            tid,
            seq: 0,
            regs: [0; 5],
            streams: vec![None, None, None],
            handles: vec![None; 4],
            lctx: crate::app::legacy_ctx(),
            chans: vec![None, None, None],
        }
    }
    fn stamp(&mut self) -> [u32; 3] {
        let s = self.seq;
        self.seq += 1;
        [self.inst, self.tid, s]
    }
    fn src(&self, s: &Src) -> u32 {
        match s {
            Src::C { c } => *c,
            Src::R { r } => self.regs[*r as usize],
        }
    }
}

/// Drop tokens: every interpreted script future owns one; `alive()` lists the scripts whose future
/// (and everything it captured) still exists.
static TOKENS: Mutex<Vec<((u32, u32), std::sync::Weak<()>)>> = Mutex::new(Vec::new());

pub fn reset_tokens() {
    TOKENS.lock().unwrap().clear();
}

pub fn new_token(inst: u32, tid: u32) -> Arc<()> {
    let t = Arc::new(());
    TOKENS.lock().unwrap().push(((inst, tid), Arc::downgrade(&t)));
    t
}

pub fn alive() -> Vec<[u32; 2]> {
    let mut v: Vec<[u32; 2]> =
        TOKENS.lock().unwrap().iter().filter(|(_, w)| w.strong_count() > 0).map(|(k, _)| [k.0, k.1]).collect();
    v.sort();
    v
}

/// Wakes itself once and returns Pending; Ready on the second poll.
struct YieldOnce(bool);
impl Future for YieldOnce {
    type Output = ();
    fn poll(mut self: Pin<&mut Self>, cx: &mut Context<'_>) -> Poll<()> {
        if self.0 {
            Poll::Ready(())
        } else {
            self.0 = true;
            cx.waker().wake_by_ref();
            Poll::Pending
        }
    }
}

fn leaf_future(
    ctx: &CommandContext<Effect, Event>,
    env: &mut TaskEnv,
    leaf: &Leaf,
) -> BoxFuture<'static, u32> {
    match leaf {
        Leaf::Req { tag, src, l } => {
            let op = VOp { o: env.stamp(), tag: *tag, val: env.src(src), live: Default::default() };
            if *l {
                env.lctx.as_ref().expect("no capability context").request_from_shell(op).boxed()
            } else {
                ctx.request_from_shell(op).boxed()
            }
        }
        Leaf::Next { s } => {
            let st = env.streams[*s as usize].clone().expect("stream not open");
            futures::future::poll_fn(move |cx| {
                st.lock().unwrap().poll_next_unpin(cx).map(|o| o.unwrap_or(0))
            })
            .boxed()
        }
        Leaf::Joinh { h } => {
            let jh = env.handles[*h as usize].clone().expect("no handle");
            (jh.fut)().map(|()| 0).boxed()
        }
        Leaf::Grecv { g } => {
            let rx = crate::app::gchan(*g).rx;
            futures::future::poll_fn(move |cx| {
                rx.lock().unwrap().poll_next_unpin(cx).map(|o| o.unwrap_or(0))
            })
            .boxed()
        }
        Leaf::Recv { c } => {
            let rx = env.chans[*c as usize].as_ref().expect("no channel").rx.clone();
            futures::future::poll_fn(move |cx| {
                rx.lock().unwrap().poll_next_unpin(cx).map(|o| o.unwrap_or(0))
            })
            .boxed()
        }
    }
}

pub fn run_script(
    ctx: CommandContext<Effect, Event>,
    code: Arc<Vec<Instr>>,
    mut env: TaskEnv,
) -> BoxFuture<'static, ()> {
    let token = new_token(env.inst, env.tid);
    async move {
        let _token = token;
        let mut pc: usize = 0;
        let mut fuel: u32 = 1_000_000;
        while pc < code.len() {
            // (a program that spins without ever suspending is a mistake of the generator, not of crux)
            fuel = fuel.checked_sub(1).expect("script does not terminate");
            match &code[pc] {
                Instr::Emit { tag, src } => {
                    let val = env.src(src);
                    ctx.send_event(Event::Em { o: env.stamp(), tag: *tag, val });
                    pc += 1;
                }
                Instr::Notify { tag, src } => {
                    let val = env.src(src);
                    ctx.notify_shell(VOp { o: env.stamp(), tag: *tag, val, live: Default::default() });
                    pc += 1;
                }
                Instr::Req { tag, src, dst, l } => {
                    let val = env.src(src);
                    let op = VOp { o: env.stamp(), tag: *tag, val, live: Default::default() };
                    let v = if *l {
                        env.lctx.as_ref().expect("no capability context").request_from_shell(op).await
                    } else {
                        ctx.request_from_shell(op).await
                    };
                    env.regs[*dst as usize] = v;
                    pc += 1;
                }
                Instr::Open { tag, src, s, l } => {
                    let val = env.src(src);
                    let op = VOp { o: env.stamp(), tag: *tag, val, live: Default::default() };
                    let st: BoxStream<'static, u32> = if *l {
                        env.lctx.as_ref().expect("no capability context").stream_from_shell(op).boxed()
                    } else {
                        ctx.stream_from_shell(op).boxed()
                    };
                    env.streams[*s as usize] = Some(Arc::new(Mutex::new(st)));
                    pc += 1;
                }
                Instr::Next { s, dst, els } => {
                    let st = env.streams[*s as usize].clone().expect("stream not open");
                    let item =
                        futures::future::poll_fn(move |cx| st.lock().unwrap().poll_next_unpin(cx))
                            .await;
                    match item {
                        Some(v) => {
                            env.regs[*dst as usize] = v;
                            pc += 1;
                        }
                        None => {
                            env.regs[*dst as usize] = 0;
                            pc = (*els as usize) - 1;
                        }
                    }
                }
                Instr::Goto { pc: p } => pc = (*p as usize) - 1,
                Instr::Map { f, reg } => {
                    env.regs[*reg as usize] = apply_f(f, env.regs[*reg as usize]);
                    pc += 1;
                }
                Instr::Spawn { script, h } => {
                    let mut child = env.clone();
                    child.tid = script.tid;
                    child.seq = 0;
                    child.streams = vec![None, None, None];
                    let ccode = Arc::new(script.code.clone());
                    let jh = ctx.spawn(move |ctx| run_script(ctx, ccode, child));
                    let (a, b) = (jh.clone(), jh);
                    env.handles[*h as usize] = Some(JH {
                        abort: Arc::new(move || a.abort()),
                        fut: Arc::new(move || b.clone().boxed()),
                    });
                    pc += 1;
                }
                Instr::Abort { h } => {
                    (env.handles[*h as usize].as_ref().expect("no handle").abort)();
                    pc += 1;
                }
                Instr::Abortc { id } => {
                    let f = crate::app::CASE
                        .with(|c| c.borrow().as_ref().and_then(|c| c.aborts.lock().unwrap().get(&(env.inst, *id)).cloned()));
                    if let Some(f) = f {
                        f();
                    }
                    pc += 1;
                }
                Instr::Joinh { h } => {
                    let f = (env.handles[*h as usize].as_ref().expect("no handle").fut)();
                    f.await;
                    pc += 1;
                }
                Instr::Join { leaves, dst } => {
                    let futs: Vec<_> = leaves.iter().map(|l| leaf_future(&ctx, &mut env, l)).collect();
                    let vals = futures::future::join_all(futs).await;
                    for (i, v) in vals.into_iter().enumerate() {
                        let d = dst.get(i).copied().unwrap_or(0) as usize;
                        if d != 0 {
                            env.regs[d] = v;
                        }
                    }
                    pc += 1;
                }
                Instr::Select { leaves, dst, idx } => {
                    let futs: Vec<_> = leaves.iter().map(|l| leaf_future(&ctx, &mut env, l)).collect();
                    let (v, i, rest) = futures::future::select_all(futs).await;
                    drop(rest);
                    if *dst != 0 {
                        env.regs[*dst as usize] = v;
                    }
                    if *idx != 0 {
                        env.regs[*idx as usize] = (i + 1) as u32;
                    }
                    pc += 1;
                }
                Instr::Yield => {
                    YieldOnce(false).await;
                    pc += 1;
                }
                Instr::Trynext { s, dst } => {
                    let st = env.streams[*s as usize].clone().expect("stream not open");
                    let item = st.lock().unwrap().next().now_or_never();
                    env.regs[*dst as usize] = item.flatten().unwrap_or(0);
                    pc += 1;
                }
                Instr::Tryrecv { c, dst } => {
                    let rx = env.chans[*c as usize].as_ref().expect("no channel").rx.clone();
                    let item = rx.lock().unwrap().next().now_or_never();
                    env.regs[*dst as usize] = item.flatten().unwrap_or(0);
                    pc += 1;
                }
                Instr::Gsend { g, src } => {
                    let val = env.src(src).max(1);
                    let _ = crate::app::gchan(*g).tx.unbounded_send(val);
                    pc += 1;
                }
                Instr::Grecv { g, dst } => {
                    let rx = crate::app::gchan(*g).rx;
                    let item =
                        futures::future::poll_fn(move |cx| rx.lock().unwrap().poll_next_unpin(cx))
                            .await;
                    env.regs[*dst as usize] = item.unwrap_or(0);
                    pc += 1;
                }
                Instr::Chan { c } => {
                    let (tx, rx) = futures::channel::mpsc::unbounded();
                    env.chans[*c as usize] = Some(ChanH { tx: Some(tx), rx: Arc::new(Mutex::new(rx)) });
                    pc += 1;
                }
                Instr::Send { c, src } => {
                    // (0 stands for "closed" on the receiving side of the DSL: messages are >= 1)
                    let val = env.src(src).max(1);
                    if let Some(tx) = env.chans[*c as usize].as_ref().and_then(|h| h.tx.as_ref()) {
                        let _ = tx.unbounded_send(val);
                    }
                    pc += 1;
                }
                Instr::Closec { c } => {
                    if let Some(h) = env.chans[*c as usize].as_mut() {
                        h.tx = None;
                    }
                    pc += 1;
                }
                Instr::Recv { c, dst, els } => {
                    let rx = env.chans[*c as usize].as_ref().expect("no channel").rx.clone();
                    let item =
                        futures::future::poll_fn(move |cx| rx.lock().unwrap().poll_next_unpin(cx))
                            .await;
                    match item {
                        Some(v) => {
                            env.regs[*dst as usize] = v;
                            pc += 1;
                        }
                        None => {
                            env.regs[*dst as usize] = 0;
                            pc = (*els as usize) - 1;
                        }
                    }
                }
            }
        }
    }
    .boxed()
}
