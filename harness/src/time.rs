//! C18: drives the real crux_time command API (Time::notify_after / notify_at + TimerHandle) with
//! schedules generated from Timer.tla and records what every poll produced.
use std::panic::{catch_unwind, AssertUnwindSafe};
use std::time::{Duration, SystemTime};

use crux_core::{Command, Request};
use crux_time::command::{Time, TimerHandle, TimerOutcome};
use crux_time::{TimeRequest, TimeResponse, TimerId};
use serde::{Deserialize, Serialize};
use serde_json::{json, Value};

pub enum TEffect {
    Time(Request<TimeRequest>),
}
impl From<Request<TimeRequest>> for TEffect {
    fn from(r: Request<TimeRequest>) -> Self {
        TEffect::Time(r)
    }
}

pub enum TEvent {
    Outcome(usize, TimerOutcome),
}

#[derive(Deserialize, Serialize, Clone, Debug)]
pub struct TStep {
    pub a: String,
    pub i: usize,
}

#[derive(Deserialize, Serialize, Clone, Debug)]
pub struct TCase {
    pub n: usize,
    pub kinds: Vec<String>,
    pub steps: Vec<TStep>,
}

struct Timer {
    cmd: Command<TEffect, TEvent>,
    handle: Option<TimerHandle>,
    start: Option<Request<TimeRequest>>,
    clear: Option<Request<TimeRequest>>,
}

fn res_str(r: Result<(), crux_core::ResolveError>) -> &'static str {
    match r {
        Ok(()) => "ok",
        Err(crux_core::ResolveError::Never) => "never",
        Err(crux_core::ResolveError::FinishedMany) => "finished",
    }
}

pub fn run_tcase(case: &TCase) -> Vec<Value> {
    let mut lines = vec![json!({"e":"tcase","n":case.n,"kinds":case.kinds})];
    let mut timers: Vec<Timer> = (0..case.n)
        .map(|i| {
            let (builder, handle) = if case.kinds.get(i).map(String::as_str) == Some("at") {
                let (b, h) = Time::<TEffect, TEvent>::notify_at(SystemTime::UNIX_EPOCH + Duration::from_secs(1000 + i as u64));
                (b.then_send(move |o| TEvent::Outcome(i, o)), h)
            } else {
                let (b, h) = Time::<TEffect, TEvent>::notify_after(Duration::from_millis(300 + i as u64));
                (b.then_send(move |o| TEvent::Outcome(i, o)), h)
            };
            Timer { cmd: builder, handle: Some(handle), start: None, clear: None }
        })
        .collect();
    for st in &case.steps {
        let i = st.i - 1;
        // the id of some other timer's request, if one has been sent
        let other_id: Option<TimerId> = timers.iter().enumerate().filter(|(j, _)| *j != i).find_map(|(_, t)| {
            t.start.as_ref().map(|r| match r.operation {
                TimeRequest::NotifyAt { id, .. } | TimeRequest::NotifyAfter { id, .. } => id,
                _ => unreachable!(),
            })
        });
        let r = catch_unwind(AssertUnwindSafe(|| {
            let t = &mut timers[i];
            match st.a.as_str() {
                "poll" => {
                    let mut outs = vec![];
                    let effs: Vec<TEffect> = t.cmd.effects().collect();
                    for e in effs {
                        let TEffect::Time(req) = e;
                        match req.operation.clone() {
                            TimeRequest::NotifyAfter { id, .. } | TimeRequest::NotifyAt { id, .. } => {
                                outs.push(json!({"k":"eff_start","id":id.0}));
                                t.start = Some(req);
                            }
                            TimeRequest::Clear { id } => {
                                outs.push(json!({"k":"eff_clear","id":id.0}));
                                t.clear = Some(req);
                            }
                            TimeRequest::Now => outs.push(json!({"k":"eff_now"})),
                        }
                    }
                    let evs: Vec<TEvent> = t.cmd.events().collect();
                    for TEvent::Outcome(j, o) in evs {
                        match o {
                            TimerOutcome::Completed(h) => {
                                // (the handle's id is private; its Debug form shows it)
                                let id: u64 = format!("{h:?}").chars().filter(char::is_ascii_digit).collect::<String>().parse().unwrap_or(0);
                                outs.push(json!({"k":"ev_completed","i":j+1,"id":id}));
                            }
                            TimerOutcome::Cleared => outs.push(json!({"k":"ev_cleared","i":j+1})),
                        }
                    }
                    let done = t.cmd.is_done();
                    json!({"e":"t","a":"poll","i":st.i,"outs":outs,"done":done})
                }
                "fire" => {
                    let res = match t.start.as_mut() {
                        None => "n/a",
                        Some(req) => {
                            let resp = match req.operation {
                                TimeRequest::NotifyAt { id, .. } => TimeResponse::InstantArrived { id },
                                TimeRequest::NotifyAfter { id, .. } => TimeResponse::DurationElapsed { id },
                                _ => unreachable!(),
                            };
                            res_str(req.resolve(resp))
                        }
                    };
                    json!({"e":"t","a":"fire","i":st.i,"res":res})
                }
                "fire_wrong" => {
                    // the shell answers with the id of another timer (one nobody has, if the other has none yet)
                    let res = match t.start.as_mut() {
                        None => "n/a",
                        Some(req) => {
                            let own = match req.operation {
                                TimeRequest::NotifyAt { id, .. } | TimeRequest::NotifyAfter { id, .. } => id,
                                _ => unreachable!(),
                            };
                            let other = other_id.filter(|o| *o != own).unwrap_or(TimerId(own.0 + 1_000_000));
                            let resp = match req.operation {
                                TimeRequest::NotifyAt { .. } => TimeResponse::InstantArrived { id: other },
                                _ => TimeResponse::DurationElapsed { id: other },
                            };
                            res_str(req.resolve(resp))
                        }
                    };
                    json!({"e":"t","a":"fire_wrong","i":st.i,"res":res})
                }
                "clear" => {
                    let res = match t.handle.take() {
                        None => "n/a",
                        Some(h) => {
                            h.clear();
                            "ok"
                        }
                    };
                    json!({"e":"t","a":"clear","i":st.i,"res":res})
                }
                "drop_handle" => {
                    let res = if t.handle.take().is_some() { "ok" } else { "n/a" };
                    json!({"e":"t","a":"drop_handle","i":st.i,"res":res})
                }
                "drop_start" => {
                    let res = if t.start.take().is_some() { "ok" } else { "n/a" };
                    json!({"e":"t","a":"drop_start","i":st.i,"res":res})
                }
                "answer_clear" => {
                    let res = match t.clear.as_mut() {
                        None => "n/a",
                        Some(req) => {
                            let TimeRequest::Clear { id } = req.operation else { unreachable!() };
                            res_str(req.resolve(TimeResponse::Cleared { id }))
                        }
                    };
                    json!({"e":"t","a":"answer_clear","i":st.i,"res":res})
                }
                "drop_clear" => {
                    let res = if t.clear.take().is_some() { "ok" } else { "n/a" };
                    json!({"e":"t","a":"drop_clear","i":st.i,"res":res})
                }
                other => panic!("unknown timer action {other}"),
            }
        }));
        match r {
            Ok(l) => lines.push(l),
            Err(_) => {
                lines.push(json!({"e":"panic","step":st}));
                break;
            }
        }
    }
    lines
}
