//! The scripted app used under Core / Bridge hosts, and the operation / event types shared by
//! every host.
use std::cell::RefCell;
use std::collections::HashMap;
use std::sync::atomic::{AtomicU32, Ordering};
use std::sync::{Arc, Mutex};

use crux_core::capability::{CapabilityContext, Operation};
use crux_core::macros::Capability;
use crux_core::Command;
use serde::{Deserialize, Serialize};

use crate::dsl::{Aborts, Builder, Cmd};

#[derive(Serialize, Deserialize, Clone, Debug)]
pub struct VOp {
    pub o: [u32; 3],
    pub tag: u32,
    pub val: u32,
    /// counts the operation values that exist (C13: a request that is over lets go of its operation)
    #[serde(skip)]
    pub live: Live,
}

/// Two operations are EQUAL when they ask for the same thing (tag and value).  The stamp `o` is how the driver
/// (like a shell holding two `Request`s) tells two equal operations apart; it takes no part in equality, so
/// that programs can have several look-alike requests outstanding at once (C02).
impl PartialEq for VOp {
    fn eq(&self, other: &Self) -> bool {
        self.tag == other.tag && self.val == other.val
    }
}
impl Eq for VOp {}
impl std::hash::Hash for VOp {
    fn hash<H: std::hash::Hasher>(&self, h: &mut H) {
        self.tag.hash(h);
        self.val.hash(h);
    }
}

static LIVE_OPS: std::sync::atomic::AtomicI64 = std::sync::atomic::AtomicI64::new(0);

/// number of VOp values alive in the process right now
pub fn live_ops() -> i64 {
    LIVE_OPS.load(Ordering::SeqCst)
}

#[derive(Debug)]
pub struct Live(u64);
static NEXT_LIVE: std::sync::atomic::AtomicU64 = std::sync::atomic::AtomicU64::new(1);
impl Default for Live {
    fn default() -> Self {
        LIVE_OPS.fetch_add(1, Ordering::SeqCst);
        let id = NEXT_LIVE.fetch_add(1, Ordering::SeqCst);
        if std::env::var_os("VERIF_OPS_DEBUG").is_some() {
            let bt = std::backtrace::Backtrace::force_capture().to_string();
            let short: Vec<&str> = bt.lines().filter(|l| l.contains("crux") && !l.contains("Live")).take(6).collect();
            eprintln!("+op {id} {}", short.join(" | "));
        }
        Live(id)
    }
}
impl Clone for Live {
    fn clone(&self) -> Self {
        Live::default()
    }
}
impl Drop for Live {
    fn drop(&mut self) {
        LIVE_OPS.fetch_sub(1, Ordering::SeqCst);
        if std::env::var_os("VERIF_OPS_DEBUG").is_some() {
            eprintln!("-op {}", self.0);
        }
    }
}
impl PartialEq for Live {
    fn eq(&self, _: &Self) -> bool {
        true
    }
}
impl Eq for Live {}
impl std::hash::Hash for Live {
    fn hash<H: std::hash::Hasher>(&self, _: &mut H) {}
}

impl Operation for VOp {
    type Output = u32;
}

#[derive(Serialize, Deserialize, Clone, PartialEq, Eq, Debug)]
pub enum Event {
    Run(u32),
    Noop,
    Em { o: [u32; 3], tag: u32, val: u32 },
    /// payload-carrying events (exercise the decoders; the app treats them like Noop)
    Data(Vec<u8>),
    Text(String),
}

/// Legacy capability for `VOp` (capability API host).
#[derive(Capability)]
pub struct Op<Ev> {
    pub context: CapabilityContext<VOp, Ev>,
}

impl<Ev> Clone for Op<Ev> {
    fn clone(&self) -> Self {
        Self { context: self.context.clone() }
    }
}

impl<Ev: 'static> Op<Ev> {
    pub fn new(context: CapabilityContext<VOp, Ev>) -> Self {
        Self { context }
    }
}

#[derive(crux_core::macros::Effect)]
pub struct Capabilities {
    pub op: Op<Event>,
}

/// What the app does for each event: a table of programs, fixed per case.
#[derive(Default, Deserialize, Serialize, Clone, Debug)]
pub struct Table {
    pub progs: Vec<Cmd>,
    /// event tag -> index of the program `update` returns for an emitted event with that tag
    #[serde(default)]
    pub follow: HashMap<String, u32>,
    /// use the legacy capability API instead of returning a Command
    #[serde(default)]
    pub legacy: bool,
}

pub struct CaseCtx {
    pub table: Table,
    pub aborts: Aborts,
    pub in_update: AtomicU32,
    pub max_in_update: AtomicU32,
    /// channels that belong to the case, not to a command (like a sender kept in an app's model): any task of
    /// any command can send on them or wait for them; they never close
    pub gchans: Mutex<HashMap<u32, GChan>>,
    /// operation values alive when the case began
    pub ops_base: i64,
}

#[derive(Clone)]
pub struct GChan {
    pub tx: futures::channel::mpsc::UnboundedSender<u32>,
    pub rx: Arc<Mutex<futures::channel::mpsc::UnboundedReceiver<u32>>>,
}

/// the case-wide channel g (made on first use)
pub fn gchan(g: u32) -> GChan {
    let ctx = CASE.with(|c| c.borrow().clone()).expect("no case installed");
    let mut m = ctx.gchans.lock().unwrap();
    m.entry(g)
        .or_insert_with(|| {
            let (tx, rx) = futures::channel::mpsc::unbounded();
            GChan { tx, rx: Arc::new(Mutex::new(rx)) }
        })
        .clone()
}

thread_local! {
    pub static CASE: RefCell<Option<Arc<CaseCtx>>> = const { RefCell::new(None) };
}

thread_local! {
    static LCTX: RefCell<Option<CapabilityContext<VOp, Event>>> = const { RefCell::new(None) };
}

/// the capability context of the core that is running `update` right now (None under direct hosts)
pub fn legacy_ctx() -> Option<CapabilityContext<VOp, Event>> {
    LCTX.with(|c| c.borrow().clone())
}

pub fn install_case(table: Table) -> Arc<CaseCtx> {
    LCTX.with(|c| *c.borrow_mut() = None);
    crate::dsl::reset_tokens();
    let ctx = Arc::new(CaseCtx {
        table,
        aborts: Arc::new(Mutex::new(HashMap::new())),
        in_update: AtomicU32::new(0),
        max_in_update: AtomicU32::new(0),
        gchans: Mutex::new(HashMap::new()),
        ops_base: live_ops(),
    });
    CASE.with(|c| *c.borrow_mut() = Some(ctx.clone()));
    ctx
}

pub struct VApp {
    ctx: Arc<CaseCtx>,
}

impl Default for VApp {
    fn default() -> Self {
        let ctx = CASE.with(|c| c.borrow().clone()).expect("no case installed");
        VApp { ctx }
    }
}

#[derive(Default)]
pub struct Model {
    pub log: Vec<Event>,
}

#[derive(Serialize, Deserialize, Clone, PartialEq, Eq, Debug)]
pub struct ViewModel {
    pub log: Vec<Event>,
}

impl crux_core::App for VApp {
    type Event = Event;
    type Model = Model;
    type ViewModel = ViewModel;
    type Capabilities = Capabilities;
    type Effect = Effect;

    fn update(&self, event: Event, model: &mut Model, caps: &Capabilities) -> Command<Effect, Event> {
        let n = self.ctx.in_update.fetch_add(1, Ordering::SeqCst) + 1;
        self.ctx.max_in_update.fetch_max(n, Ordering::SeqCst);
        LCTX.with(|c| *c.borrow_mut() = Some(caps.op.context.clone()));
        model.log.push(event.clone());
        let inst = u32::try_from(model.log.len()).unwrap();
        let prog = match &event {
            Event::Run(p) => self.ctx.table.progs.get(*p as usize),
            Event::Noop | Event::Data(_) | Event::Text(_) => None,
            Event::Em { tag, .. } => self
                .ctx
                .table
                .follow
                .get(&tag.to_string())
                .and_then(|p| self.ctx.table.progs.get(*p as usize)),
        };
        let cmd = match prog {
            None => Command::done(),
            Some(p) if self.ctx.table.legacy => {
                crate::legacy::run_legacy(caps, p, inst);
                Command::done()
            }
            Some(p) => Builder { inst, aborts: self.ctx.aborts.clone() }.build(p),
        };
        self.ctx.in_update.fetch_sub(1, Ordering::SeqCst);
        cmd
    }

    fn view(&self, model: &Model) -> ViewModel {
        ViewModel { log: model.log.clone() }
    }
}
