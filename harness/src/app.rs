//! The scripted app used under Core / Bridge hosts, and the operation / event types shared by
//! every host.
use std::cell::RefCell;
use std::collections::HashMap;
use std::sync::atomic::{AtomicU32, Ordering};
use std::sync::{Arc, Mutex};

use crux_core::capability::{CapabilityContext, Operation};
use crux_core::macros::Capability;
use crux_core::Command;
use serde::{Deserialize, Serialize};

use crate::dsl::{Aborts, Builder, Cmd};

#[derive(Serialize, Deserialize, Clone, PartialEq, Eq, Debug, Hash)]
pub struct VOp {
    pub o: [u32; 3],
    pub tag: u32,
    pub val: u32,
}

impl Operation for VOp {
    type Output = u32;
}

#[derive(Serialize, Deserialize, Clone, PartialEq, Eq, Debug)]
pub enum Event {
    Run(u32),
    Noop,
    Em { o: [u32; 3], tag: u32, val: u32 },
    /// payload-carrying events (exercise the decoders; the app treats them like Noop)
    Data(Vec<u8>),
    Text(String),
}

/// Legacy capability for `VOp` (capability API host).
#[derive(Capability)]
pub struct Op<Ev> {
    pub context: CapabilityContext<VOp, Ev>,
}

impl<Ev> Clone for Op<Ev> {
    fn clone(&self) -> Self {
        Self { context: self.context.clone() }
    }
}

impl<Ev: 'static> Op<Ev> {
    pub fn new(context: CapabilityContext<VOp, Ev>) -> Self {
        Self { context }
    }
}

#[derive(crux_core::macros::Effect)]
pub struct Capabilities {
    pub op: Op<Event>,
}

/// What the app does for each event: a table of programs, fixed per case.
#[derive(Default, Deserialize, Serialize, Clone, Debug)]
pub struct Table {
    pub progs: Vec<Cmd>,
    /// event tag -> index of the program `update` returns for an emitted event with that tag
    #[serde(default)]
    pub follow: HashMap<String, u32>,
    /// use the legacy capability API instead of returning a Command
    #[serde(default)]
    pub legacy: bool,
}

pub struct CaseCtx {
    pub table: Table,
    pub aborts: Aborts,
    pub in_update: AtomicU32,
    pub max_in_update: AtomicU32,
    /// channels that belong to the case, not to a command (like a sender kept in an app's model): any task of
    /// any command can send on them or wait for them; they never close
    pub gchans: Mutex<HashMap<u32, GChan>>,
}

#[derive(Clone)]
pub struct GChan {
    pub tx: futures::channel::mpsc::UnboundedSender<u32>,
    pub rx: Arc<Mutex<futures::channel::mpsc::UnboundedReceiver<u32>>>,
}

/// the case-wide channel g (made on first use)
pub fn gchan(g: u32) -> GChan {
    let ctx = CASE.with(|c| c.borrow().clone()).expect("no case installed");
    let mut m = ctx.gchans.lock().unwrap();
    m.entry(g)
        .or_insert_with(|| {
            let (tx, rx) = futures::channel::mpsc::unbounded();
            GChan { tx, rx: Arc::new(Mutex::new(rx)) }
        })
        .clone()
}

thread_local! {
    pub static CASE: RefCell<Option<Arc<CaseCtx>>> = const { RefCell::new(None) };
}

thread_local! {
    static LCTX: RefCell<Option<CapabilityContext<VOp, Event>>> = const { RefCell::new(None) };
}

/// the capability context of the core that is running `update` right now (None under direct hosts)
pub fn legacy_ctx() -> Option<CapabilityContext<VOp, Event>> {
    LCTX.with(|c| c.borrow().clone())
}

pub fn install_case(table: Table) -> Arc<CaseCtx> {
    LCTX.with(|c| *c.borrow_mut() = None);
    crate::dsl::reset_tokens();
    let ctx = Arc::new(CaseCtx {
        table,
        aborts: Arc::new(Mutex::new(HashMap::new())),
        in_update: AtomicU32::new(0),
        max_in_update: AtomicU32::new(0),
        gchans: Mutex::new(HashMap::new()),
    });
    CASE.with(|c| *c.borrow_mut() = Some(ctx.clone()));
    ctx
}

pub struct VApp {
    ctx: Arc<CaseCtx>,
}

impl Default for VApp {
    fn default() -> Self {
        let ctx = CASE.with(|c| c.borrow().clone()).expect("no case installed");
        VApp { ctx }
    }
}

#[derive(Default)]
pub struct Model {
    pub log: Vec<Event>,
}

#[derive(Serialize, Deserialize, Clone, PartialEq, Eq, Debug)]
pub struct ViewModel {
    pub log: Vec<Event>,
}

impl crux_core::App for VApp {
    type Event = Event;
    type Model = Model;
    type ViewModel = ViewModel;
    type Capabilities = Capabilities;
    type Effect = Effect;

    fn update(&self, event: Event, model: &mut Model, caps: &Capabilities) -> Command<Effect, Event> {
        let n = self.ctx.in_update.fetch_add(1, Ordering::SeqCst) + 1;
        self.ctx.max_in_update.fetch_max(n, Ordering::SeqCst);
        LCTX.with(|c| *c.borrow_mut() = Some(caps.op.context.clone()));
        model.log.push(event.clone());
        let inst = u32::try_from(model.log.len()).unwrap();
        let prog = match &event {
            Event::Run(p) => self.ctx.table.progs.get(*p as usize),
            Event::Noop | Event::Data(_) | Event::Text(_) => None,
            Event::Em { tag, .. } => self
                .ctx
                .table
                .follow
                .get(&tag.to_string())
                .and_then(|p| self.ctx.table.progs.get(*p as usize)),
        };
        let cmd = match prog {
            None => Command::done(),
            Some(p) if self.ctx.table.legacy => {
                crate::legacy::run_legacy(caps, p, inst);
                Command::done()
            }
            Some(p) => Builder { inst, aborts: self.ctx.aborts.clone() }.build(p),
        };
        self.ctx.in_update.fetch_sub(1, Ordering::SeqCst);
        cmd
    }

    fn view(&self, model: &Model) -> ViewModel {
        ViewModel { log: model.log.clone() }
    }
}
