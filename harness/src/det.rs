//! C11 (first half): replaying one history against a fresh core must give byte-identical effect
//! batches (bincode, timer ids renamed in order of first appearance) and view, in every run and
//! in every process.  `det` mode replays each history and prints a digest per history; the driver
//! compares digests across repeated in-process runs and across separate processes.
use std::collections::HashMap;
use std::time::Duration;

use bincode::Options;
use crux_core::bridge::Bridge;
use crux_core::{Command, Core};
use crux_http::protocol::{HttpResponse, HttpResult};
use crux_kv::{value::Value as KvValue, KeyValueResponse, KeyValueResult};
use crux_time::{TimeRequest, TimeResponse, TimerId};
use serde::{Deserialize, Serialize};
use serde_json::{json, Value};

#[derive(Serialize, Deserialize, Clone, Debug, PartialEq, Eq)]
pub enum DEv {
    Go(u8),
    Done(String),
}

#[derive(crux_core::macros::Effect)]
#[effect(name = "DetEffect")]
pub struct DetCaps {
    pub http: crux_http::Http<DEv>,
    pub key_value: crux_kv::KeyValue<DEv>,
    pub time: crux_time::Time<DEv>,
    pub render: crux_core::render::Render<DEv>,
}

#[derive(Default)]
pub struct DetApp;

#[derive(Default)]
pub struct DetModel {
    log: Vec<String>,
}

fn http_summary<B: std::fmt::Debug>(r: &crux_http::Result<crux_http::Response<B>>) -> String {
    match r {
        Ok(resp) => {
            let mut hs: Vec<String> = resp
                .iter()
                .map(|(n, vs)| format!("{}={}", n, vs.iter().map(|v| v.as_str().to_string()).collect::<Vec<_>>().join("|")))
                .collect();
            hs.sort();
            format!("http ok {} [{}] {:?}", resp.status(), hs.join(","), resp.body())
        }
        Err(e) => format!("http err {e}"),
    }
}

impl crux_core::App for DetApp {
    type Event = DEv;
    type Model = DetModel;
    type ViewModel = Vec<String>;
    type Capabilities = DetCaps;
    type Effect = DetEffect;

    fn update(&self, event: DEv, model: &mut DetModel, caps: &DetCaps) -> Command<DetEffect, DEv> {
        type H = crux_http::command::Http<DetEffect, DEv>;
        type K = crux_kv::command::KeyValue<DetEffect, DEv>;
        type T = crux_time::command::Time<DetEffect, DEv>;
        match event {
            DEv::Done(s) => {
                model.log.push(s);
                crux_core::render::render()
            }
            DEv::Go(k) => match k % 9 {
                // many headers, one of them multi-valued: sorting, hashing and small-size fast paths of
                // whatever orders the protocol headers only show their nature beyond a few dozen entries
                7 => {
                    let values: Vec<http_types::headers::HeaderValue> = ["text/html", "application/json", "text/plain", "*/*"]
                        .iter()
                        .map(|v| v.parse().unwrap())
                        .collect();
                    let mut b = H::get("https://example.com/many").header("accept", &values[..]);
                    for i in 0..40 {
                        b = b.header(format!("x-trace-{i:02}").as_str(), format!("v{i}"));
                    }
                    b.build().then_send(|r| DEv::Done(http_summary(&r)))
                }
                8 => {
                    let values: Vec<http_types::headers::HeaderValue> = ["a=1", "b=2", "c=3", "d=4", "e=5"]
                        .iter()
                        .map(|v| v.parse().unwrap())
                        .collect();
                    let mut b = caps.http.post("https://example.com/legacy-many").header("cookie", &values[..]);
                    for i in 0..36 {
                        b = b.header(format!("x-id-{i:02}").as_str(), format!("{}", i * 7));
                    }
                    b.send(|r| DEv::Done(http_summary(&r)));
                    Command::done()
                }
                0 => {
                    caps.http
                        .get("https://example.com/legacy?x=1")
                        .header("accept", "application/json")
                        .header("x-request-id", "r-1")
                        .header("authorization", "Bearer abc")
                        .header("x-trace", "t-9")
                        .send(|r| DEv::Done(http_summary(&r)));
                    Command::done()
                }
                1 => H::post("https://example.com/cmd")
                    .header("accept", "text/plain")
                    .header("x-one", "1")
                    .header("x-two", "2")
                    .header("cache-control", "no-cache")
                    .body_json(&json!({"a":1,"b":[1,2,3]}))
                    .unwrap()
                    .expect_string()
                    .build()
                    .then_send(|r| DEv::Done(http_summary(&r))),
                2 => K::set("key-a", vec![1, 2, 3]).then_send(|r| DEv::Done(format!("kv set {r:?}"))),
                3 => {
                    caps.key_value.get("key-b".to_string(), |r| DEv::Done(format!("kv get {r:?}")));
                    Command::done()
                }
                4 => {
                    let (b, _handle) = T::notify_after(Duration::from_millis(250));
                    b.then_send(|o| DEv::Done(format!("timer {}", matches!(o, crux_time::command::TimerOutcome::Completed(_)))))
                }
                5 => {
                    caps.time.notify_after(Duration::from_secs(2), |r| {
                        DEv::Done(format!("legacy timer {}", matches!(r, TimeResponse::DurationElapsed { .. })))
                    });
                    Command::done()
                }
                _ => Command::all([
                    K::list_keys("pre", 0).then_send(|r| DEv::Done(format!("kv list {r:?}"))),
                    H::get("https://example.com/all").header("x-a", "1").header("x-b", "2").header("x-c", "3").build().then_send(|r| DEv::Done(http_summary(&r))),
                ]),
            },
        }
    }

    fn view(&self, model: &DetModel) -> Vec<String> {
        model.log.clone()
    }
}

fn opts() -> impl bincode::Options + Copy {
    bincode::DefaultOptions::new().with_fixint_encoding().allow_trailing_bytes()
}

#[derive(Deserialize, Serialize, Clone, Debug)]
#[serde(tag = "s", rename_all = "snake_case")]
pub enum DStep {
    Ev { k: u8 },
    /// answer the i-th oldest outstanding request (index modulo the number outstanding)
    Resp { i: usize },
    /// a command-API timer inspected directly (no core): its answer and `clear()` on its handle both arrive
    /// before the command is looked at again (clear first when `clear_first`); what comes out goes into the digests
    Race { k: u8, clear_first: bool },
}

fn fnv(h: &mut u64, bytes: &[u8]) {
    for b in bytes {
        *h ^= u64::from(*b);
        *h = h.wrapping_mul(0x100_0000_01b3);
    }
}

/// replay one history through the bincode bridge; returns the per-call digests of the returned
/// effect batches (timer ids renamed), and of the final view
pub fn replay(steps: &[DStep]) -> Value {
    let bridge = Bridge::<DetApp>::new(Core::new());
    let mut outstanding: Vec<(u32, DetEffectFfi)> = vec![];
    let mut rename: HashMap<usize, usize> = HashMap::new();
    let mut digests = vec![];
    let mut first_diff_material = vec![];
    let mut race_digests: Vec<String> = vec![];
    let mut race_material: Vec<String> = vec![];
    let mut handle = |bytes: Vec<u8>, outstanding: &mut Vec<(u32, DetEffectFfi)>, rename: &mut HashMap<usize, usize>| {
        let reqs: Vec<crux_core::bridge::Request<DetEffectFfi>> = opts().deserialize(&bytes).expect("decode batch");
        // rename timer ids in order of first appearance, then re-encode the batch
        let mut renamed = vec![];
        for r in reqs {
            let eff = match &r.effect {
                DetEffectFfi::Time(TimeRequest::NotifyAfter { id, duration }) => {
                    let n = rename.len() + 1;
                    let nid = *rename.entry(id.0).or_insert(n);
                    DetEffectFfi::Time(TimeRequest::NotifyAfter { id: TimerId(nid), duration: *duration })
                }
                other => clone_ffi(other),
            };
            if !matches!(r.effect, DetEffectFfi::Render(_)) {
                outstanding.push((r.id.0, clone_ffi(&r.effect)));
            }
            renamed.push((r.id.0, eff));
        }
        let enc = opts().serialize(&renamed.iter().map(|(i, e)| (i, e)).collect::<Vec<_>>()).unwrap();
        let mut h = 0xcbf2_9ce4_8422_2325u64;
        fnv(&mut h, &enc);
        digests.push(format!("{h:016x}"));
        if first_diff_material.len() < 40 {
            first_diff_material.push(format!("{:?}", renamed.iter().map(|(i, e)| format!("{i}:{}", dbg_ffi(e))).collect::<Vec<_>>()));
        }
    };
    for st in steps {
        match st {
            DStep::Ev { k } => {
                let out = bridge.process_event(&opts().serialize(&DEv::Go(*k)).unwrap()).expect("event");
                handle(out, &mut outstanding, &mut rename);
            }
            DStep::Race { k, clear_first } => {
                use crux_time::command::{Time, TimerOutcome};
                let (b, handle) = Time::<DetEffect, DEv>::notify_after(std::time::Duration::from_millis(100 + u64::from(*k)));
                let mut cmd: Command<DetEffect, DEv> = b.then_send(|o| {
                    DEv::Done(match o {
                        TimerOutcome::Completed(_) => "completed".to_string(),
                        TimerOutcome::Cleared => "cleared".to_string(),
                    })
                });
                let mut out = vec![];
                let mut effs: Vec<DetEffect> = cmd.effects().collect();
                if let Some(DetEffect::Time(mut req)) = effs.pop() {
                    let id = match &req.operation {
                        TimeRequest::NotifyAfter { id, .. } => *id,
                        _ => TimerId(0),
                    };
                    if *clear_first {
                        handle.clear();
                        let _ = req.resolve(TimeResponse::DurationElapsed { id });
                    } else {
                        let _ = req.resolve(TimeResponse::DurationElapsed { id });
                        handle.clear();
                    }
                    for _ in 0..3 {
                        for e in cmd.effects() {
                            out.push(match e {
                                DetEffect::Time(mut r) => {
                                    let what = match &r.operation {
                                        TimeRequest::Clear { .. } => "eff:clear",
                                        _ => "eff:other",
                                    };
                                    let _ = r.resolve(TimeResponse::Cleared { id });
                                    what.to_string()
                                }
                                _ => "eff:?".to_string(),
                            });
                        }
                        for ev in cmd.events() {
                            if let DEv::Done(s) = ev {
                                out.push(format!("ev:{s}"));
                            }
                        }
                    }
                }
                let mut h = 0xcbf2_9ce4_8422_2325u64;
                fnv(&mut h, out.join(",").as_bytes());
                race_digests.push(format!("{h:016x}"));
                race_material.push(format!("race: {out:?}"));
            }
            DStep::Resp { i } => {
                if outstanding.is_empty() {
                    continue;
                }
                let (id, eff) = outstanding.remove(*i % outstanding.len());
                let body = match eff {
                    DetEffectFfi::Http(_) => opts()
                        .serialize(&HttpResult::Ok(
                            HttpResponse::ok()
                                .header("content-type", "text/plain; charset=utf-8")
                                .header("etag", "\"e1\"")
                                .header("x-served-by", "shell")
                                .header("set-cookie", "a=1")
                                .body("hello")
                                .build(),
                        ))
                        .unwrap(),
                    DetEffectFfi::KeyValue(op) => opts()
                        .serialize(&KeyValueResult::Ok {
                            response: match op {
                                crux_kv::KeyValueOperation::Set { .. } => KeyValueResponse::Set { previous: KvValue::None },
                                crux_kv::KeyValueOperation::Get { .. } => KeyValueResponse::Get { value: KvValue::Bytes(vec![9, 8]) },
                                crux_kv::KeyValueOperation::ListKeys { .. } => KeyValueResponse::ListKeys { keys: vec!["pre1".into(), "pre2".into()], next_cursor: 0 },
                                crux_kv::KeyValueOperation::Delete { .. } => KeyValueResponse::Delete { previous: KvValue::None },
                                crux_kv::KeyValueOperation::Exists { .. } => KeyValueResponse::Exists { is_present: true },
                            },
                        })
                        .unwrap(),
                    DetEffectFfi::Time(TimeRequest::NotifyAfter { id, .. }) => opts().serialize(&TimeResponse::DurationElapsed { id }).unwrap(),
                    DetEffectFfi::Time(_) => opts().serialize(&TimeResponse::Cleared { id: TimerId(0) }).unwrap(),
                    DetEffectFfi::Render(_) => continue,
                };
                let out = bridge.handle_response(id, &body).expect("response");
                handle(out, &mut outstanding, &mut rename);
            }
        }
    }
    digests.extend(race_digests);
    first_diff_material.extend(race_material);
    let view = bridge.view().unwrap();
    let mut h = 0xcbf2_9ce4_8422_2325u64;
    fnv(&mut h, &view);
    json!({"batches": digests, "view": format!("{h:016x}"), "material": first_diff_material})
}

fn clone_ffi(e: &DetEffectFfi) -> DetEffectFfi {
    match e {
        DetEffectFfi::Http(x) => DetEffectFfi::Http(x.clone()),
        DetEffectFfi::KeyValue(x) => DetEffectFfi::KeyValue(x.clone()),
        DetEffectFfi::Time(x) => DetEffectFfi::Time(x.clone()),
        DetEffectFfi::Render(x) => DetEffectFfi::Render(x.clone()),
    }
}

fn dbg_ffi(e: &DetEffectFfi) -> String {
    match e {
        DetEffectFfi::Http(x) => format!("{x:?}"),
        DetEffectFfi::KeyValue(x) => format!("{x:?}"),
        DetEffectFfi::Time(x) => format!("{x:?}"),
        DetEffectFfi::Render(_) => "Render".into(),
    }
}
