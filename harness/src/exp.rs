//! scratch experiments (not part of any check)
use crate::app::{Effect, Event, VOp};
use crux_core::Command;

fn op(tag: u32, val: u32) -> VOp {
    VOp { o: [0, 0, 0], tag, val, live: Default::default() }
}

pub fn flat() {
    let mut cmd: Command<Effect, Event> = Command::stream_from_shell(op(1, 0))
        .then_stream(|x| Command::stream_from_shell(op(2, x)).then_request(|y| Command::request_from_shell(op(3, y))))
        .then_send(|v| Event::Em { o: [0, 0, 0], tag: 9, val: v });
    let mut effs: Vec<Effect> = cmd.effects().collect();
    println!("after start: effects {} done {}", effs.len(), cmd.is_done());
    let Effect::Op(mut outer) = effs.remove(0);
    outer.resolve(5).unwrap();
    let mut effs: Vec<Effect> = cmd.effects().collect();
    println!("after outer item: effects {} done {}", effs.len(), cmd.is_done());
    let Effect::Op(mut inner) = effs.remove(0);
    inner.resolve(7).unwrap();
    let mut effs: Vec<Effect> = cmd.effects().collect();
    println!("after inner item: effects {} done {}", effs.len(), cmd.is_done());
    let Effect::Op(third) = effs.remove(0);
    println!("third op {:?}", third.operation);
    drop(third);
    let n = cmd.effects().count();
    println!("after dropping the then_request: effects {} done {}", n, cmd.is_done());
    drop(inner);
    let n = cmd.effects().count();
    println!("after dropping inner stream: effects {} done {}", n, cmd.is_done());
    drop(outer);
    let n = cmd.effects().count();
    println!("after dropping outer stream: effects {} events {} done {}", n, cmd.events().count(), cmd.is_done());
    // the same without flatten_unordered: request root, sequential
    let mut cmd: Command<Effect, Event> = Command::stream_from_shell(op(2, 0))
        .then_request(|y| Command::request_from_shell(op(3, y)))
        .then_send(|v| Event::Em { o: [0, 0, 0], tag: 9, val: v });
    let mut effs: Vec<Effect> = cmd.effects().collect();
    let Effect::Op(mut inner) = effs.remove(0);
    inner.resolve(7).unwrap();
    let mut effs: Vec<Effect> = cmd.effects().collect();
    let Effect::Op(third) = effs.remove(0);
    drop(third);
    let n = cmd.effects().count();
    println!("[sequential] after dropping the then_request: effects {} done {}", n, cmd.is_done());
    drop(inner);
    let n = cmd.effects().count();
    println!("[sequential] after dropping stream: effects {} done {}", n, cmd.is_done());
}
