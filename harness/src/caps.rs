//! Executors for the capability-crate decision tables (C11b, C14-C17): every case TLC printed from
//! HttpBuilder / HttpOutcome / HttpMiddleware / KeyValue / ValueEq is run on the real crate with
//! concrete members of each abstract class; the observation is abstracted back and compared with
//! the outcome the specification computed.
use std::cell::RefCell;
use std::panic::{catch_unwind, AssertUnwindSafe};
use std::sync::{Arc, Mutex};

use crux_core::bridge::{Bridge, BridgeWithSerializer};
use crux_core::{Command, Core};
use crux_http::http::{headers::HeaderValue, Method, Url};
use crux_http::middleware::{Next, Redirect};
use crux_http::protocol::{HttpHeader, HttpRequest, HttpResponse, HttpResult};
use crux_http::client::Client;
use crux_http::{HttpError, ResponseAsync};
use crux_kv::error::KeyValueError;
use crux_kv::value::Value as KvValue;
use crux_kv::{KeyValueOperation, KeyValueResponse, KeyValueResult};
use serde::{Deserialize, Serialize};
use serde_json::{json, Value};

// ---------------------------------------------------------------------------------------------
// A scripted app with the http and key-value capabilities (capability API under Core / Bridge)

#[derive(Serialize, Deserialize, Clone, Debug, PartialEq, Eq)]
pub enum CEvent {
    Go,
    Done(String),
}

#[derive(crux_core::macros::Effect)]
#[effect(name = "CEffect")]
pub struct CCaps {
    pub http: crux_http::Http<CEvent>,
    pub key_value: crux_kv::KeyValue<CEvent>,
}

type Script = Box<dyn Fn(&CCaps) + Send + Sync>;
thread_local! {
    static SCRIPT: RefCell<Option<Arc<Script>>> = const { RefCell::new(None) };
}

#[derive(Default)]
pub struct CApp;

#[derive(Default)]
pub struct CModel {
    done: Vec<String>,
}

impl crux_core::App for CApp {
    type Event = CEvent;
    type Model = CModel;
    type ViewModel = Vec<String>;
    type Capabilities = CCaps;
    type Effect = CEffect;

    fn update(&self, event: CEvent, model: &mut CModel, caps: &CCaps) -> Command<CEffect, CEvent> {
        match event {
            CEvent::Go => {
                let s = SCRIPT.with(|s| s.borrow().clone()).expect("no script");
                (s)(caps);
            }
            CEvent::Done(s) => model.done.push(s),
        }
        Command::done()
    }
    fn view(&self, model: &CModel) -> Vec<String> {
        model.done.clone()
    }
}

fn with_script<R>(script: Script, f: impl FnOnce() -> R) -> R {
    SCRIPT.with(|s| *s.borrow_mut() = Some(Arc::new(script)));
    let r = f();
    SCRIPT.with(|s| *s.borrow_mut() = None);
    r
}

// command API effect / event types
pub enum DEffect {
    Http(crux_core::Request<HttpRequest>),
    Kv(crux_core::Request<KeyValueOperation>),
}
impl From<crux_core::Request<HttpRequest>> for DEffect {
    fn from(r: crux_core::Request<HttpRequest>) -> Self {
        DEffect::Http(r)
    }
}
impl From<crux_core::Request<KeyValueOperation>> for DEffect {
    fn from(r: crux_core::Request<KeyValueOperation>) -> Self {
        DEffect::Kv(r)
    }
}

// ---------------------------------------------------------------------------------------------
// concretisation pools

fn pick<'a, T: ?Sized>(pool: &'a [&'a T], v: usize) -> &'a T {
    pool[v % pool.len()]
}

fn body_bytes(class: &str, v: usize) -> Vec<u8> {
    match class {
        "empty" => vec![],
        "ascii" => pick(&[&b"hello"[..], b"x", b"The quick brown fox 0123456789"], v).to_vec(),
        "utf8" => pick(&["h\u{e9}llo w\u{f6}rld", "\u{65e5}\u{672c}\u{8a9e}", "\u{1f600} emoji"], v).as_bytes().to_vec(),
        "invalid_utf8" => pick(&[&[0xff, 0x41, 0xfe][..], &[0xc3, 0x28], &[0x80]], v).to_vec(), // (no byte-order mark: a conforming decoder lets a BOM override the label)
        "json_ok" => pick(&[&br#"{"k":"v","n":1}"#[..], br#"{"k":"","n":0}"#, "{\"n\":4294967295,\"k\":\"\u{e9}\"}".as_bytes()], v).to_vec(),
        "json_bad" => pick(&[&br#"{"k":"v","n":"#[..], b"not json", br#"{"k":1,"n":"x"}"#], v).to_vec(),
        "json_trailing" => pick(&[&br#"{"k":"v","n":1}{"k":"w","n":2}"#[..], b"{\"k\":\"v\",\"n\":1}\n}", br#"{"k":"","n":0} <html>"#], v).to_vec(),
        other => panic!("body class {other}"),
    }
}

#[derive(Deserialize, Serialize, Debug, PartialEq, Clone)]
struct Doc {
    k: String,
    n: u32,
}

fn ctype_value(class: &str, v: usize) -> Option<&'static str> {
    match class {
        "none" => None,
        "json" => Some(pick(&["application/json", "application/json; charset=utf-8", "Application/JSON"], v)),
        "text_utf8" => Some(pick(&["text/plain; charset=utf-8", "text/plain;charset=UTF-8", "text/html; charset=utf8"], v)),
        "text_latin1" => Some(pick(&["text/plain; charset=iso-8859-1", "text/plain; charset=windows-1252", "text/plain;charset=latin1"], v)),
        "text_unknown_charset" => Some(pick(&["text/plain; charset=klingon", "text/plain; charset=x-nope"], v)),
        "binary" => Some(pick(&["application/octet-stream", "image/png"], v)),
        "malformed" => Some(pick(&["json", "text", "application/json, application/json"], v)),
        "text_utf16le" => Some(pick(&["text/plain; charset=utf-16le", "text/html;charset=UTF-16LE"], v)),
        "text_2022jp" => Some(pick(&["text/plain; charset=iso-2022-jp", "text/plain; charset=csISO2022JP"], v)),
        "text_replacement" => Some(pick(&["text/plain; charset=iso-2022-kr", "text/plain; charset=hz-gb-2312"], v)),
        other => panic!("ctype {other}"),
    }
}

fn extra_headers(class: &str, v: usize) -> Vec<(String, String)> {
    match class {
        "none" => vec![],
        "one" => vec![(pick(&["x-one", "etag", "x-request-id"], v).to_string(), "abc".into())],
        "repeated" => vec![("set-cookie".into(), "a=1".into()), ("set-cookie".into(), "b=2".into())],
        "mixed_case" => vec![("X-Mixed-Case".into(), "Value With Spaces".into()), ("ETag".into(), "\"w/1\"".into())],
        other => panic!("hdrs {other}"),
    }
}

// ---------------------------------------------------------------------------------------------
// http_outcome (C15)

fn classify<B>(r: &crux_http::Result<crux_http::Response<B>>) -> Value {
    match r {
        Ok(resp) => json!({"k":"success","status": u16::from(resp.status())}),
        Err(HttpError::Http { code, body: Some(_), .. }) => json!({"k":"http_err","status": u16::from(*code)}),
        Err(HttpError::Http { body: None, .. }) | Err(HttpError::Json(_)) => json!({"k":"decode_err"}),
        Err(HttpError::Url(_)) => json!({"k":"shell_err","e":"err_url"}),
        Err(HttpError::Io(_)) => json!({"k":"shell_err","e":"err_io"}),
        Err(HttpError::Timeout) => json!({"k":"shell_err","e":"err_timeout"}),
    }
}

/// Details a success must preserve: the headers the server sent (names case-insensitively, every
/// value) and nothing else; the body.
fn fidelity<B>(resp: &crux_http::Response<B>, sent: &[(String, String)]) -> Vec<String> {
    let mut problems = vec![];
    let mut want: std::collections::BTreeMap<String, Vec<String>> = Default::default();
    for (n, v) in sent {
        want.entry(n.to_lowercase()).or_default().push(v.clone());
    }
    let mut got: std::collections::BTreeMap<String, Vec<String>> = Default::default();
    for (n, vs) in resp.iter() {
        got.insert(n.as_str().to_string(), vs.iter().map(|v| v.as_str().to_string()).collect());
    }
    if want != got {
        problems.push(format!("headers differ: sent {want:?} received {got:?}"));
    }
    problems
}

/// bodies for charsets that are not ASCII-compatible, with what a conforming decoder yields
fn enc_specific(ctype: &str, v: usize) -> (Vec<u8>, Option<&'static str>) {
    match ctype {
        "text_utf16le" => [
            (vec![0x68, 0x00, 0x69, 0x00], Some("hi")),
            (vec![0x41, 0x00, 0xe9, 0x00], Some("A\u{e9}")),
            (vec![0x3c, 0x00, 0x62, 0x00, 0x3e, 0x00], Some("<b>")),
        ][v % 3]
            .clone(),
        "text_2022jp" => [
            (vec![0x1b, 0x24, 0x42, 0x30, 0x21, 0x1b, 0x28, 0x42], Some("\u{4e9c}")),
            (b"abc".to_vec(), Some("abc")),
            (vec![0x41, 0x1b, 0x24, 0x42, 0x30, 0x21, 0x1b, 0x28, 0x42, 0x42], Some("A\u{4e9c}B")),
        ][v % 3]
            .clone(),
        _ => (b"<b>abc</b>".to_vec(), None),
    }
}

fn run_http_outcome(inp: &Value, v: usize) -> Value {
    let status = inp["status"].as_u64().unwrap() as u16;
    let ctype_class = inp["ctype"].as_str().unwrap();
    let (body, enc_want) = if inp["body"] == "enc_specific" {
        let (b, w) = enc_specific(ctype_class, v);
        (b, w.map(str::to_string))
    } else {
        (body_bytes(inp["body"].as_str().unwrap(), v), None)
    };
    let mut headers = extra_headers(inp["hdrs"].as_str().unwrap(), v);
    if let Some(ct) = ctype_value(inp["ctype"].as_str().unwrap(), v) {
        headers.push(("Content-Type".into(), ct.into()));
    }
    let shell = inp["shell"].as_str().unwrap();
    let result = match shell {
        "ok" => {
            let mut b = HttpResponse::status(status);
            for (n, v) in &headers {
                b.header(n.clone(), v.clone());
            }
            HttpResult::Ok(b.body(body.clone()).build())
        }
        "err_url" => HttpResult::Err(HttpError::Url("relative URL without a base".into())),
        "err_io" => HttpResult::Err(HttpError::Io("connection reset".into())),
        _ => HttpResult::Err(HttpError::Timeout),
    };
    let expect = inp["expect"].as_str().unwrap().to_string();
    let sent = if shell == "ok" { headers.clone() } else { vec![] };
    let sent_body = body.clone();
    // what a conforming decoder yields
    let utf8_claimed = matches!(inp["ctype"].as_str().unwrap(), "none" | "json" | "text_utf8" | "binary");
    let want_string = if utf8_claimed { String::from_utf8(body.clone()).ok() } else { enc_want.clone() };
    let summarize = move |kind: &str, r: Value, problems: Vec<String>| -> String {
        json!({"expect": kind, "class": r, "problems": problems}).to_string()
    };
    let api = inp["api"].as_str().unwrap();
    let outcome: Result<Vec<String>, ()> = catch_unwind(AssertUnwindSafe(|| {
        if api == "command" {
            type H = crux_http::command::Http<DEffect, String>;
            let b = H::get("https://example.com/");
            let sent2 = sent.clone();
            let sb = sent_body.clone();
            let ws = want_string.clone();
            let mut cmd: Command<DEffect, String> = match expect.as_str() {
                "bytes" => b.build().then_send(move |r| {
                    let mut p = r.as_ref().map(|x| fidelity(x, &sent2)).unwrap_or_default();
                    if let Ok(x) = &r {
                        if x.body() != Some(&sb) {
                            p.push("body bytes differ".into());
                        }
                    }
                    json!({"class": classify(&r), "problems": p}).to_string()
                }),
                "string" => b.expect_string().build().then_send(move |r| {
                    let mut p = r.as_ref().map(|x| fidelity(x, &sent2)).unwrap_or_default();
                    if let (Ok(x), Some(w)) = (&r, &ws) {
                        if x.body() != Some(w) {
                            p.push("decoded string differs".into());
                        }
                    }
                    json!({"class": classify(&r), "problems": p}).to_string()
                }),
                _ => b.expect_json::<Doc>().build().then_send(move |r| {
                    let mut p = r.as_ref().map(|x| fidelity(x, &sent2)).unwrap_or_default();
                    if let Ok(x) = &r {
                        if x.body() != serde_json::from_slice::<Doc>(&sb).ok().as_ref() {
                            p.push("decoded json differs".into());
                        }
                    }
                    json!({"class": classify(&r), "problems": p}).to_string()
                }),
            };
            let mut effs: Vec<DEffect> = cmd.effects().collect();
            assert_eq!(effs.len(), 1, "exactly one request effect");
            let DEffect::Http(mut req) = effs.pop().unwrap() else { panic!("not http") };
            req.resolve(result.clone()).expect("resolve");
            let evs: Vec<String> = cmd.events().collect();
            assert!(cmd.is_done());
            evs
        } else {
            let expect2 = expect.clone();
            let sent2 = sent.clone();
            let sb = sent_body.clone();
            let ws = want_string.clone();
            let script: Script = Box::new(move |caps: &CCaps| {
                let b = caps.http.get("https://example.com/");
                let (sent3, sb2, ws2) = (sent2.clone(), sb.clone(), ws.clone());
                match expect2.as_str() {
                    "bytes" => b.send(move |r| {
                        let mut p = r.as_ref().map(|x| fidelity(x, &sent3)).unwrap_or_default();
                        if let Ok(x) = &r {
                            if x.body() != Some(&sb2) {
                                p.push("body bytes differ".into());
                            }
                        }
                        CEvent::Done(json!({"class": classify(&r), "problems": p}).to_string())
                    }),
                    "string" => b.expect_string().send(move |r| {
                        let mut p = r.as_ref().map(|x| fidelity(x, &sent3)).unwrap_or_default();
                        if let (Ok(x), Some(w)) = (&r, &ws2) {
                            if x.body() != Some(w) {
                                p.push("decoded string differs".into());
                            }
                        }
                        CEvent::Done(json!({"class": classify(&r), "problems": p}).to_string())
                    }),
                    _ => b.expect_json::<Doc>().send(move |r| {
                        let mut p = r.as_ref().map(|x| fidelity(x, &sent3)).unwrap_or_default();
                        if let Ok(x) = &r {
                            if x.body() != serde_json::from_slice::<Doc>(&sb2).ok().as_ref() {
                                p.push("decoded json differs".into());
                            }
                        }
                        CEvent::Done(json!({"class": classify(&r), "problems": p}).to_string())
                    }),
                }
            });
            with_script(script, || match api {
                "capability" => {
                    let core = Core::<CApp>::new();
                    let mut effs = core.process_event(CEvent::Go);
                    assert_eq!(effs.len(), 1, "exactly one request effect");
                    let CEffect::Http(mut req) = effs.pop().unwrap() else { panic!("not http") };
                    let more = core.resolve(&mut req, result.clone()).expect("resolve");
                    assert!(more.is_empty());
                    core.view()
                }
                "bridge_bin" => {
                    // the shell's answer crosses the bridge as bytes written by a Rust shell
                    use bincode::Options;
                    let o = bincode::DefaultOptions::new().with_fixint_encoding().allow_trailing_bytes();
                    let b = Bridge::<CApp>::new(Core::new());
                    let out = b.process_event(&o.serialize(&CEvent::Go).unwrap()).expect("event");
                    let reqs: Vec<crux_core::bridge::Request<CEffectFfi>> = o.deserialize(&out).unwrap();
                    assert_eq!(reqs.len(), 1, "exactly one request effect");
                    b.handle_response(reqs[0].id.0, &o.serialize(&result).unwrap()).expect("response");
                    o.deserialize(&b.view().unwrap()).unwrap()
                }
                _ => {
                    let b = BridgeWithSerializer::<CApp>::new(Core::new());
                    let mut out = vec![];
                    let ev = serde_json::to_vec(&CEvent::Go).unwrap();
                    b.process_event(&mut serde_json::Deserializer::from_slice(&ev), &mut serde_json::Serializer::new(&mut out)).expect("event");
                    let reqs: Vec<crux_core::bridge::Request<CEffectFfi>> = serde_json::from_slice(&out).unwrap();
                    assert_eq!(reqs.len(), 1, "exactly one request effect");
                    let body = serde_json::to_vec(&result).unwrap();
                    let mut out2 = vec![];
                    b.handle_response(reqs[0].id.0, &mut serde_json::Deserializer::from_slice(&body), &mut serde_json::Serializer::new(&mut out2)).expect("response");
                    let mut vb = vec![];
                    b.view(&mut serde_json::Serializer::new(&mut vb)).unwrap();
                    serde_json::from_slice(&vb).unwrap()
                }
            })
        }
    }))
    .map_err(|_| ());
    let _ = summarize;
    match outcome {
        Err(()) => json!({"k":"panic"}),
        Ok(evs) if evs.len() != 1 => json!({"k":"wrong_event_count","n":evs.len()}),
        Ok(evs) => {
            let e: Value = serde_json::from_str(&evs[0]).unwrap();
            let mut class = e["class"].clone();
            let problems = e["problems"].as_array().cloned().unwrap_or_default();
            if class["k"] == "success" && !problems.is_empty() {
                class["k"] = json!("success_altered");
                class["problems"] = json!(problems);
            }
            class
        }
    }
}

fn outcome_matches(expected: &Value, observed: &Value) -> bool {
    if expected["k"] == "any" {
        return observed["k"] != "panic" && observed["k"] != "wrong_event_count";
    }
    expected == observed
}

// ---------------------------------------------------------------------------------------------
// kv (C17)

fn kv_key(tok: &str, v: usize) -> String {
    match tok {
        "k_empty" => String::new(),
        "k_ascii" => pick(&["key", "a/b c", "UPPER.lower-1"], v).to_string(),
        "k_unicode" => pick(&["cl\u{e9}", "\u{1f511}key", "\u{65e5}\u{672c}"], v).to_string(),
        "k_long" => "k".repeat([300, 5000, 70000][v % 3]),
        other => panic!("key {other}"),
    }
}
fn kv_val(tok: &str, v: usize) -> Vec<u8> {
    match tok {
        "v_empty" => vec![],
        "v_bin" => pick(&[&[0u8, 255, 1, 128][..], &[0], b"\xff\xfe\x00text"], v).to_vec(),
        "v_large" => (0..[4096usize, 100_000, 65_537][v % 3]).map(|i| (i % 251) as u8).collect(),
        other => panic!("val {other}"),
    }
}
fn kv_cur(tok: &str, v: usize) -> u64 {
    match tok {
        "c_zero" => 0,
        _ => [u64::MAX, 1 << 40, 12345678901][v % 3],
    }
}
fn kv_keys(tok: &str, v: usize) -> Vec<String> {
    match tok {
        "ks_none" => vec![],
        _ => vec![kv_key("k_ascii", v), kv_key("k_unicode", v), String::new()],
    }
}
fn kv_err(tok: &str, v: usize) -> KeyValueError {
    match tok {
        "e_io" => KeyValueError::Io { message: pick(&["disk full", "", "\u{1f4a5}"], v).to_string() },
        "e_timeout" => KeyValueError::Timeout,
        "e_cursor" => KeyValueError::CursorNotFound,
        _ => KeyValueError::Other { message: pick(&["other", "x".repeat(1000).leak()], v).to_string() },
    }
}

fn kv_result(call: &str, resp: &Value, v: usize) -> KeyValueResult {
    let val = |r: &Value| -> KvValue {
        if r["r"] == "absent" {
            KvValue::None
        } else {
            KvValue::Bytes(kv_val(r["v"].as_str().unwrap(), v))
        }
    };
    if resp["r"] == "error" {
        return KeyValueResult::Err { error: kv_err(resp["e"].as_str().unwrap(), v) };
    }
    let response = match call {
        "get" => KeyValueResponse::Get { value: val(resp) },
        "set" => KeyValueResponse::Set { previous: val(resp) },
        "delete" => KeyValueResponse::Delete { previous: val(resp) },
        "exists" => KeyValueResponse::Exists { is_present: resp["b"].as_bool().unwrap() },
        _ => KeyValueResponse::ListKeys {
            keys: kv_keys(resp["keys"].as_str().unwrap(), v),
            next_cursor: kv_cur(resp["next"].as_str().unwrap(), v),
        },
    };
    KeyValueResult::Ok { response }
}

/// abstract an observed operation back to tokens using the concretisation of this very case
fn kv_abstract_op(op: &KeyValueOperation, inp: &Value, v: usize) -> Value {
    let key_tok = |k: &str| -> String {
        let want = inp["key"].as_str().unwrap();
        if k == kv_key(want, v) { want.to_string() } else { format!("other:{}", k.chars().take(20).collect::<String>()) }
    };
    match op {
        KeyValueOperation::Get { key } => json!({"op":"get","key":key_tok(key)}),
        KeyValueOperation::Delete { key } => json!({"op":"delete","key":key_tok(key)}),
        KeyValueOperation::Exists { key } => json!({"op":"exists","key":key_tok(key)}),
        KeyValueOperation::Set { key, value } => {
            let want = inp["val"].as_str().unwrap();
            let vt = if *value == kv_val(want, v) { want.to_string() } else { "other".into() };
            json!({"op":"set","key":key_tok(key),"val":vt})
        }
        KeyValueOperation::ListKeys { prefix, cursor } => {
            let want = inp["cur"].as_str().unwrap();
            let ct = if *cursor == kv_cur(want, v) { want.to_string() } else { "other".into() };
            json!({"op":"list","prefix":key_tok(prefix),"cur":ct})
        }
    }
}

fn kv_abs_data(r: &Result<Option<Vec<u8>>, KeyValueError>, resp: &Value, v: usize) -> Value {
    match r {
        Ok(None) => json!({"r":"absent"}),
        Ok(Some(b)) => {
            let want = resp["v"].as_str().unwrap_or("v_empty");
            if *b == kv_val(want, v) { json!({"r":"bytes","v":want}) } else { json!({"r":"bytes","v":"other"}) }
        }
        Err(e) => kv_abs_err(e, resp, v),
    }
}
fn kv_abs_err(e: &KeyValueError, resp: &Value, v: usize) -> Value {
    let want = resp["e"].as_str().unwrap_or("e_timeout");
    if *e == kv_err(want, v) { json!({"r":"error","e":want}) } else { json!({"r":"error","e":format!("other:{e:?}")}) }
}
fn kv_abs_bool(r: &Result<bool, KeyValueError>, resp: &Value, v: usize) -> Value {
    match r {
        Ok(b) => json!({"r":"bool","b":b}),
        Err(e) => kv_abs_err(e, resp, v),
    }
}
fn kv_abs_list(r: &Result<(Vec<String>, u64), KeyValueError>, resp: &Value, v: usize) -> Value {
    match r {
        Ok((keys, next)) => {
            let wk = resp["keys"].as_str().unwrap_or("ks_none");
            let wn = resp["next"].as_str().unwrap_or("c_zero");
            json!({"r":"page",
                   "keys": if *keys == kv_keys(wk, v) { wk.to_string() } else { "other".into() },
                   "next": if *next == kv_cur(wn, v) { wn.to_string() } else { "other".into() }})
        }
        Err(e) => kv_abs_err(e, resp, v),
    }
}

fn run_kv(inp: &Value, v: usize) -> Value {
    let call = inp["call"].as_str().unwrap().to_string();
    let key = kv_key(inp["key"].as_str().unwrap(), v);
    let val = kv_val(inp["val"].as_str().unwrap(), v);
    let cur = kv_cur(inp["cur"].as_str().unwrap(), v);
    let resp = inp["resp"].clone();
    let result = kv_result(&call, &resp, v);
    let api = inp["api"].as_str().unwrap();
    let out = catch_unwind(AssertUnwindSafe(|| -> Value {
        if api == "command" {
            type K = crux_kv::command::KeyValue<DEffect, String>;
            let (r1, r2, r3) = (resp.clone(), resp.clone(), resp.clone());
            let mut cmd: Command<DEffect, String> = match call.as_str() {
                "get" => K::get(key.clone()).then_send(move |r| kv_abs_data(&r, &r1, v).to_string()),
                "set" => K::set(key.clone(), val.clone()).then_send(move |r| kv_abs_data(&r, &r1, v).to_string()),
                "delete" => K::delete(key.clone()).then_send(move |r| kv_abs_data(&r, &r1, v).to_string()),
                "exists" => K::exists(key.clone()).then_send(move |r| kv_abs_bool(&r, &r2, v).to_string()),
                _ => K::list_keys(key.clone(), cur).then_send(move |r| kv_abs_list(&r, &r3, v).to_string()),
            };
            let mut effs: Vec<DEffect> = cmd.effects().collect();
            if effs.len() != 1 {
                return json!({"op":"wrong_effect_count","n":effs.len()});
            }
            let DEffect::Kv(mut req) = effs.pop().unwrap() else { panic!("not kv") };
            let op = kv_abstract_op(&req.operation, inp, v);
            req.resolve(result.clone()).expect("resolve");
            let evs: Vec<String> = cmd.events().collect();
            if evs.len() != 1 {
                return json!({"op":op,"result":"wrong_event_count"});
            }
            json!({"op":op,"result": serde_json::from_str::<Value>(&evs[0]).unwrap()})
        } else {
            let (call2, key2, val2, resp2) = (call.clone(), key.clone(), val.clone(), resp.clone());
            let script: Script = Box::new(move |caps: &CCaps| {
                let (r1, r2, r3) = (resp2.clone(), resp2.clone(), resp2.clone());
                match call2.as_str() {
                    "get" => caps.key_value.get(key2.clone(), move |r| CEvent::Done(kv_abs_data(&r, &r1, v).to_string())),
                    "set" => caps.key_value.set(key2.clone(), val2.clone(), move |r| CEvent::Done(kv_abs_data(&r, &r1, v).to_string())),
                    "delete" => caps.key_value.delete(key2.clone(), move |r| CEvent::Done(kv_abs_data(&r, &r1, v).to_string())),
                    "exists" => caps.key_value.exists(key2.clone(), move |r| CEvent::Done(kv_abs_bool(&r, &r2, v).to_string())),
                    _ => caps.key_value.list_keys(key2.clone(), cur, move |r| CEvent::Done(kv_abs_list(&r, &r3, v).to_string())),
                }
            });
            with_script(script, || match api {
                "capability" => {
                    let core = Core::<CApp>::new();
                    let mut effs = core.process_event(CEvent::Go);
                    if effs.len() != 1 {
                        return json!({"op":"wrong_effect_count","n":effs.len()});
                    }
                    let CEffect::KeyValue(mut req) = effs.pop().unwrap() else { panic!("not kv") };
                    let op = kv_abstract_op(&req.operation, inp, v);
                    core.resolve(&mut req, result.clone()).expect("resolve");
                    let evs = core.view();
                    if evs.len() != 1 {
                        return json!({"op":op,"result":"wrong_event_count"});
                    }
                    json!({"op":op,"result": serde_json::from_str::<Value>(&evs[0]).unwrap()})
                }
                "bridge_bin" => {
                    use bincode::Options;
                    let o = bincode::DefaultOptions::new().with_fixint_encoding().allow_trailing_bytes();
                    let b = Bridge::<CApp>::new(Core::new());
                    let out = b.process_event(&o.serialize(&CEvent::Go).unwrap()).expect("event");
                    let mut reqs: Vec<crux_core::bridge::Request<CEffectFfi>> = o.deserialize(&out).unwrap();
                    if reqs.len() != 1 {
                        return json!({"op":"wrong_effect_count","n":reqs.len()});
                    }
                    let r = reqs.pop().unwrap();
                    let CEffectFfi::KeyValue(opn) = r.effect else { panic!("not kv") };
                    let op = kv_abstract_op(&opn, inp, v);
                    b.handle_response(r.id.0, &o.serialize(&result).unwrap()).expect("response");
                    let evs: Vec<String> = o.deserialize(&b.view().unwrap()).unwrap();
                    if evs.len() != 1 {
                        return json!({"op":op,"result":"wrong_event_count"});
                    }
                    json!({"op":op,"result": serde_json::from_str::<Value>(&evs[0]).unwrap()})
                }
                _ => {
                    let b = BridgeWithSerializer::<CApp>::new(Core::new());
                    let mut out = vec![];
                    let ev = serde_json::to_vec(&CEvent::Go).unwrap();
                    b.process_event(&mut serde_json::Deserializer::from_slice(&ev), &mut serde_json::Serializer::new(&mut out)).expect("event");
                    let mut reqs: Vec<crux_core::bridge::Request<CEffectFfi>> = serde_json::from_slice(&out).unwrap();
                    if reqs.len() != 1 {
                        return json!({"op":"wrong_effect_count","n":reqs.len()});
                    }
                    let r = reqs.pop().unwrap();
                    let CEffectFfi::KeyValue(opn) = r.effect else { panic!("not kv") };
                    let op = kv_abstract_op(&opn, inp, v);
                    let body = serde_json::to_vec(&result).unwrap();
                    let mut out2 = vec![];
                    b.handle_response(r.id.0, &mut serde_json::Deserializer::from_slice(&body), &mut serde_json::Serializer::new(&mut out2)).expect("response");
                    let mut vb = vec![];
                    b.view(&mut serde_json::Serializer::new(&mut vb)).unwrap();
                    let evs: Vec<String> = serde_json::from_slice(&vb).unwrap();
                    if evs.len() != 1 {
                        return json!({"op":op,"result":"wrong_event_count"});
                    }
                    json!({"op":op,"result": serde_json::from_str::<Value>(&evs[0]).unwrap()})
                }
            })
        }
    }));
    out.unwrap_or_else(|_| json!({"op":"panic"}))
}

// ---------------------------------------------------------------------------------------------
// valueeq (C11b)

fn build_response(side: &Value, v: usize) -> crux_http::Response<Vec<u8>> {
    use crux_http::testing::ResponseBuilder;
    let status = if side["status"] == 200 { crux_http::http::StatusCode::Ok } else { crux_http::http::StatusCode::Created };
    let mut b = ResponseBuilder::with_status(status);
    for ins in side["hdrs"].as_array().unwrap() {
        let name = match ins["n"].as_str().unwrap() {
            "n1" => pick(&["x-first", "etag"], v),
            "n2" => pick(&["x-second", "cache-control"], v),
            _ => pick(&["x-third", "vary"], v),
        };
        let vals: Vec<HeaderValue> = ins["vs"]
            .as_array()
            .unwrap()
            .iter()
            .map(|x| HeaderValue::from_bytes(format!("val-{}", x.as_str().unwrap()).into_bytes()).unwrap())
            .collect();
        b = b.header(name, &vals[..]);
    }
    let body = if side["body"] == "b1" { b"body one".to_vec() } else { b"body two".to_vec() };
    b.body(body).build()
}

fn run_valueeq(inp: &Value, v: usize) -> Value {
    // repeat: every Headers instance has its own hash state, so iteration order varies per build
    let mut seen_true = false;
    let mut seen_false = false;
    for _ in 0..12 {
        let a = build_response(&inp["a"], v);
        let b = build_response(&inp["b"], v);
        if a == b && b == a {
            seen_true = true;
        } else {
            seen_false = true;
        }
        if (a == b) != (b == a) {
            return json!({"eq":"asymmetric"});
        }
    }
    match (seen_true, seen_false) {
        (true, false) => json!({"eq": true}),
        (false, true) => json!({"eq": false}),
        _ => json!({"eq":"unstable"}),
    }
}

// ---------------------------------------------------------------------------------------------
// http_builder (C14)

fn url_in(tok: &str, v: usize) -> &'static str {
    match tok {
        "u_plain" => pick(&["https://example.com/a/b", "http://example.com", "https://sub.example.co.uk/path/"], v),
        "u_query" => pick(&["https://example.com/s?q=1&r=two", "https://example.com/?a=b%20c"], v),
        "u_fragment" => pick(&["https://example.com/doc#frag", "https://example.com/a?x=1#f"], v),
        "u_unicode" => pick(&["https://example.com/caf\u{e9}/\u{65e5}\u{672c}", "https://example.com/?q=\u{e9}"], v),
        "u_percent" => pick(&["https://example.com/a%20b/%E2%9C%93", "https://example.com/%2F%2f?x=%26"], v),
        "u_port" => pick(&["http://localhost:8080/api", "https://user@example.com:8443/x"], v),
        other => panic!("url {other}"),
    }
}

#[derive(Serialize)]
struct Q {
    a: u32,
    b: String,
}
#[derive(Serialize)]
struct Form {
    a: u32,
    b: String,
}

const BODY_STRING: &str = "h\u{e9}llo string body";
const BODY_BYTES: &[u8] = &[0, 255, 1, 2, 128];
const BODY_JSON: &str = r#"{"z":"vé","n":7,"a":21.3}"#;
/// a typed JSON body: members not in alphabetical order, one of them an f32 (an encoder that goes through a
/// generic JSON value would reorder the one and widen the other)
#[derive(Serialize)]
struct JBody {
    z: String,
    n: u32,
    a: f32,
}

fn expected_url(inp: &Value, out: &Value, v: usize) -> String {
    let mut u = Url::parse(url_in(inp["url"].as_str().unwrap(), v)).unwrap();
    match out["query"].as_str().unwrap() {
        "q1" => u.set_query(Some("a=1&b=x")),
        "q2" => u.set_query(Some("a=2&b=y")),
        _ => {}
    }
    u.to_string()
}

fn abstract_request(req: &HttpRequest, inp: &Value, out: &Value, v: usize) -> Value {
    let body = if req.body.is_empty() {
        if out["body"] == "empty" { "empty" } else { "none" }
    } else if req.body == BODY_STRING.as_bytes() {
        "string"
    } else if req.body == BODY_BYTES {
        "bytes"
    } else if serde_json::from_slice::<Value>(&req.body).ok() == serde_json::from_str::<Value>(BODY_JSON).ok() && req.body == BODY_JSON_WIRE.as_bytes() {
        "json"
    } else if req.body == b"a=1&b=x+y" {
        "form"
    } else {
        "other"
    };
    // headers: (name, position among the values of that name, value token)
    let mut per_name: std::collections::BTreeMap<String, Vec<String>> = Default::default();
    for HttpHeader { name, value } in &req.headers {
        per_name.entry(name.clone()).or_default().push(value.clone());
    }
    let mut hs = vec![];
    for (n, vs) in per_name {
        for (i, val) in vs.iter().enumerate() {
            let tok = match val.as_str() {
                "value-One" => "v1".to_string(),
                "Value Two; q=0.5" => "v2".to_string(),
                "application/x-custom+thing" => "m_custom".to_string(),
                other => other.to_string(),
            };
            hs.push(json!([n, i + 1, tok]));
        }
    }
    let url_ok = req.url == expected_url(inp, out, v);
    json!({"method": req.method, "url": if url_ok { out["url"].clone() } else { json!(format!("other:{}", req.url)) },
           "query": out["query"], "body": body, "headers": hs})
}

const BODY_JSON_WIRE: &str = r#"{"z":"vé","n":7,"a":21.3}"#;

fn hval(tok: &str) -> &'static str {
    match tok {
        "v1" => "value-One",
        _ => "Value Two; q=0.5",
    }
}

macro_rules! apply_ops {
    ($b:expr, $ops:expr) => {{
        let mut b = $b;
        for o in $ops {
            b = match o["op"].as_str().unwrap() {
                "header" => {
                    let n = o["n"].as_str().unwrap().to_string();
                    let vs = o["vs"].as_array().unwrap();
                    if vs.len() == 1 {
                        b.header(n.as_str(), hval(vs[0].as_str().unwrap()))
                    } else {
                        let vals: Vec<HeaderValue> =
                            vs.iter().map(|x| HeaderValue::from_bytes(hval(x.as_str().unwrap()).as_bytes().to_vec()).unwrap()).collect();
                        b.header(n.as_str(), &vals[..])
                    }
                }
                "many" => {
                    let mut b2 = b;
                    for n in o["ns"].as_array().unwrap() {
                        b2 = b2.header(n.as_str().unwrap(), hval("v1"));
                    }
                    b2
                }
                "ctype" => b.content_type("application/x-custom+thing".parse::<crux_http::http::Mime>().unwrap()),
                "body" => match o["k"].as_str().unwrap() {
                    "string" => b.body_string(BODY_STRING.to_string()),
                    "empty" => b.body_string(String::new()),
                    "bytes" => b.body_bytes(BODY_BYTES),
                    "json" => b.body_json(&JBody { z: "vé".into(), n: 7, a: 21.3 }).unwrap(),
                    _ => b.body_form(&Form { a: 1, b: "x y".into() }).unwrap(),
                },
                _ => {
                    let q = if o["q"] == "q1" { Q { a: 1, b: "x".into() } } else { Q { a: 2, b: "y".into() } };
                    b.query(&q).unwrap()
                }
            };
        }
        b
    }};
}

fn run_http_builder(inp: &Value, out: &Value, v: usize) -> Value {
    let method: Method = inp["method"].as_str().unwrap().parse().unwrap();
    let url = url_in(inp["url"].as_str().unwrap(), v);
    let ops = inp["ops"].as_array().cloned().unwrap_or_default();
    let api = inp["api"].as_str().unwrap();
    let r = catch_unwind(AssertUnwindSafe(|| -> Value {
        let reqs: Vec<HttpRequest> = if api == "command" {
            type H = crux_http::command::Http<DEffect, String>;
            let b = apply_ops!(H::request(method, Url::parse(url).unwrap()), &ops);
            let mut cmd: Command<DEffect, String> = b.build().then_send(|_| String::new());
            cmd.effects().map(|e| { let DEffect::Http(r) = e else { panic!() }; r.operation.clone() }).collect()
        } else {
            let ops2 = ops.clone();
            let script: Script = Box::new(move |caps: &CCaps| {
                let b = apply_ops!(caps.http.request(method, Url::parse(url).unwrap()), &ops2);
                b.send(|_| CEvent::Done(String::new()));
            });
            with_script(script, || {
                let core = Core::<CApp>::new();
                core.process_event(CEvent::Go).into_iter().map(|e| { let CEffect::Http(r) = e else { panic!() }; r.operation.clone() }).collect()
            })
        };
        if reqs.len() != 1 {
            return json!({"k":"wrong_effect_count","n":reqs.len()});
        }
        abstract_request(&reqs[0], inp, out, v)
    }));
    r.unwrap_or_else(|_| json!({"k":"panic"}))
}

fn builder_matches(expected: &Value, observed: &Value) -> bool {
    let hs = |x: &Value| -> Vec<String> {
        let mut v: Vec<String> = x["headers"].as_array().cloned().unwrap_or_default().iter().map(|h| h.to_string()).collect();
        v.sort();
        v
    };
    expected["method"] == observed["method"]
        && expected["url"] == observed["url"]
        && expected["body"].as_str().map(|b| if b == "none" { "none" } else { b }) == observed["body"].as_str()
        && hs(expected) == hs(observed)
}

// ---------------------------------------------------------------------------------------------
// http_mw (C16)

fn conc_url(u: &Value) -> String {
    let dirs: Vec<String> = u["dir"].as_array().unwrap().iter().map(|d| d.as_str().unwrap().to_string()).collect();
    format!("https://h.example/{}/{}", dirs.join("/"), u["file"].as_str().unwrap())
}

static MWLOG: Mutex<Vec<Value>> = Mutex::new(Vec::new());
fn mwlog(v: Value) {
    MWLOG.lock().unwrap().push(v);
}

type MwFut<'a> = futures::future::BoxFuture<'a, crux_http::Result<ResponseAsync>>;

fn pass1<'a>(req: crux_http::Request, client: Client, next: Next<'a>) -> MwFut<'a> {
    Box::pin(async move {
        mwlog(json!({"t":"enter","m":"pass1"}));
        let r = next.run(req, client).await;
        mwlog(json!({"t":"exit","m":"pass1"}));
        r
    })
}
fn pass2<'a>(req: crux_http::Request, client: Client, next: Next<'a>) -> MwFut<'a> {
    Box::pin(async move {
        mwlog(json!({"t":"enter","m":"pass2"}));
        let r = next.run(req, client).await;
        mwlog(json!({"t":"exit","m":"pass2"}));
        r
    })
}
fn short<'a>(_req: crux_http::Request, _client: Client, _next: Next<'a>) -> MwFut<'a> {
    Box::pin(async move {
        mwlog(json!({"t":"enter","m":"short"}));
        Ok(HttpResponse::status(203).body("short").build().into())
    })
}
fn extra<'a>(req: crux_http::Request, client: Client, next: Next<'a>) -> MwFut<'a> {
    Box::pin(async move {
        // a request of its own, through the client the middleware was given
        let _ = client.get("https://h.example/extra/e").await;
        next.run(req, client).await
    })
}

fn extrar<'a>(req: crux_http::Request, client: Client, next: Next<'a>) -> MwFut<'a> {
    Box::pin(async move {
        // a prepared request of its own that carries per-request middleware; what is sent is a clone of it
        // (a middleware that keeps such a request in a field can only send clones)
        let mut prepared = crux_http::Request::new(Method::Get, Url::parse("https://h.example/extra/e").unwrap());
        prepared.middleware(Redirect::new(1));
        let _ = client.send(prepared.clone()).await;
        next.run(req, client).await
    })
}

macro_rules! add_mw {
    ($b:expr, $stack:expr) => {{
        let mut b = $b;
        for m in $stack {
            b = match m.as_str().unwrap() {
                "pass1" => b.middleware(pass1),
                "pass2" => b.middleware(pass2),
                "short" => b.middleware(short),
                "extra" => b.middleware(extra),
                "extrar" => b.middleware(extrar),
                "redir0" => b.middleware(Redirect::new(0)),
                "redir1" => b.middleware(Redirect::new(1)),
                "redir2" => b.middleware(Redirect::new(2)),
                _ => b.middleware(Redirect::new(3)),
            };
        }
        b
    }};
}

/// the scripted server: the chain of hops the specification printed for this case
fn serve(server: &[Value], req: &HttpRequest) -> HttpResult {
    for s in server {
        if conc_url(&s["url"]) == req.url {
            let st = s["ans"]["status"].as_u64().unwrap() as u16;
            let mut b = HttpResponse::status(st);
            match s["ans"]["loc"].as_str().unwrap() {
                "abs" => {
                    b.header("Location", conc_url(&s["next"]));
                }
                "rel_dir" => {
                    let d = s["next"]["dir"].as_array().unwrap().last().unwrap().as_str().unwrap().to_string();
                    b.header("location", format!("{d}/"));
                }
                "rel_file" => {
                    b.header("LOCATION", s["next"]["file"].as_str().unwrap().to_string());
                }
                "invalid" => {
                    b.header("Location", "http://[::1");
                }
                _ => {}
            }
            return HttpResult::Ok(b.body("served").build());
        }
    }
    HttpResult::Ok(HttpResponse::status(404).body("lost").build())
}

fn run_http_mw(inp: &Value, server: &[Value], v: usize) -> Value {
    let _ = v;
    let stack = inp["stack"].as_array().cloned().unwrap_or_default();
    let api = inp["api"].as_str().unwrap();
    MWLOG.lock().unwrap().clear();
    let start = "https://h.example/x/y";
    let r = catch_unwind(AssertUnwindSafe(|| -> Value {
        let mut shell_log = vec![];
        let final_out: String;
        if api == "command" {
            type H = crux_http::command::Http<DEffect, String>;
            let b = add_mw!(H::post(start).body_string("the body".into()), &stack);
            let mut cmd: Command<DEffect, String> = b.build().then_send(|r| match r {
                Ok(resp) => json!({"k": if resp.status() == crux_http::http::StatusCode::NonAuthoritativeInformation { "short" } else { "status" }, "status": u16::from(resp.status())}).to_string(),
                Err(HttpError::Http { code, body: Some(_), .. }) => json!({"k":"status","status":u16::from(code)}).to_string(),
                Err(_) => json!({"k":"error"}).to_string(),
            });
            let mut guard = 0;
            loop {
                let effs: Vec<DEffect> = cmd.effects().collect();
                if effs.is_empty() {
                    break;
                }
                for e in effs {
                    let DEffect::Http(mut req) = e else { panic!() };
                    mwlog(json!({"t":"shell","url":req.operation.url,"body":!req.operation.body.is_empty()}));
                    let ans = serve(server, &req.operation);
                    req.resolve(ans).expect("resolve");
                }
                guard += 1;
                assert!(guard < 50, "too many requests");
            }
            let evs: Vec<String> = cmd.events().collect();
            assert_eq!(evs.len(), 1, "one outcome");
            final_out = evs[0].clone();
        } else {
            let stack2 = stack.clone();
            let script: Script = Box::new(move |caps: &CCaps| {
                let b = add_mw!(caps.http.post(start).body_string("the body".into()), &stack2);
                b.send(|r| {
                    CEvent::Done(match r {
                        Ok(resp) => json!({"k": if resp.status() == crux_http::http::StatusCode::NonAuthoritativeInformation { "short" } else { "status" }, "status": u16::from(resp.status())}).to_string(),
                        Err(HttpError::Http { code, body: Some(_), .. }) => json!({"k":"status","status":u16::from(code)}).to_string(),
                        Err(_) => json!({"k":"error"}).to_string(),
                    })
                });
            });
            final_out = with_script(script, || {
                let core = Core::<CApp>::new();
                let mut effs = core.process_event(CEvent::Go);
                let mut guard = 0;
                while !effs.is_empty() {
                    let mut next = vec![];
                    for e in effs {
                        let CEffect::Http(mut req) = e else { panic!() };
                        mwlog(json!({"t":"shell","url":req.operation.url,"body":!req.operation.body.is_empty()}));
                        let ans = serve(server, &req.operation);
                        next.extend(core.resolve(&mut req, ans).expect("resolve"));
                    }
                    effs = next;
                    guard += 1;
                    assert!(guard < 50, "too many requests");
                }
                let evs = core.view();
                assert_eq!(evs.len(), 1, "one outcome");
                evs[0].clone()
            });
        }
        shell_log.extend(MWLOG.lock().unwrap().drain(..));
        let mut out: Value = serde_json::from_str(&final_out).unwrap();
        if out["k"] == "short" {
            out = json!({"k":"short"});
        }
        json!({"log": shell_log, "out": out})
    }));
    r.unwrap_or_else(|_| json!({"k":"panic"}))
}

fn mw_expected_conc(exp: &Value) -> Value {
    // concretise the URLs of the expected log
    let log: Vec<Value> = exp["log"]
        .as_array()
        .cloned()
        .unwrap_or_default()
        .into_iter()
        .map(|mut e| {
            if e["t"] == "shell" {
                e["url"] = json!(conc_url(&e["url"]));
            }
            e
        })
        .collect();
    json!({"log": log, "out": exp["out"]})
}

// ---------------------------------------------------------------------------------------------
// ltimer (C18 / C13): the legacy capability API of crux_time under Core

#[derive(Serialize, Deserialize, Clone, Debug, PartialEq, Eq)]
pub enum LEvent {
    Start(usize),
    StartClear(usize),
    Clear(usize),
    Outcome(usize, String),
}

#[derive(crux_core::macros::Effect)]
#[effect(name = "LEffect")]
pub struct LCaps {
    pub time: crux_time::Time<LEvent>,
}

#[derive(Default)]
pub struct LApp;
#[derive(Default)]
pub struct LModel {
    ids: std::collections::BTreeMap<usize, usize>,
    outcomes: Vec<(usize, String)>,
}

impl crux_core::App for LApp {
    type Event = LEvent;
    type Model = LModel;
    type ViewModel = (Vec<(usize, usize)>, Vec<(usize, String)>);
    type Capabilities = LCaps;
    type Effect = LEffect;
    fn update(&self, event: LEvent, model: &mut LModel, caps: &LCaps) -> Command<LEffect, LEvent> {
        let outcome = |i: usize| {
            move |r: crux_time::TimeResponse| {
                LEvent::Outcome(i, match r {
                    crux_time::TimeResponse::DurationElapsed { .. } => "elapsed".into(),
                    crux_time::TimeResponse::Cleared { .. } => "cleared".into(),
                    other => format!("{other:?}"),
                })
            }
        };
        match event {
            LEvent::Start(i) => {
                let id = caps.time.notify_after(std::time::Duration::from_millis(100 + i as u64), outcome(i));
                model.ids.insert(i, id.0);
            }
            LEvent::StartClear(i) => {
                let id = caps.time.notify_after(std::time::Duration::from_millis(100 + i as u64), outcome(i));
                model.ids.insert(i, id.0);
                caps.time.clear(id);
            }
            LEvent::Clear(i) => caps.time.clear(crux_time::TimerId(model.ids[&i])),
            LEvent::Outcome(i, o) => model.outcomes.push((i, o)),
        }
        Command::done()
    }
    fn view(&self, model: &LModel) -> Self::ViewModel {
        (model.ids.iter().map(|(a, b)| (*a, *b)).collect(), model.outcomes.clone())
    }
}

/// returns per step [effs, evs, set] as observed
fn run_ltimer(steps: &[Value]) -> Value {
    let r = catch_unwind(AssertUnwindSafe(|| -> Value {
        let core = Core::<LApp>::new();
        let base = crux_time::verif_cleared_len();
        let mut reqs: std::collections::HashMap<usize, crux_core::Request<crux_time::TimeRequest>> = Default::default();
        let mut seen_out = 0usize;
        let mut obs = vec![];
        for st in steps {
            let i = st["i"].as_u64().unwrap() as usize;
            let effs = match st["a"].as_str().unwrap() {
                "start" => core.process_event(LEvent::Start(i)),
                "start_clear" => core.process_event(LEvent::StartClear(i)),
                "clear" => core.process_event(LEvent::Clear(i)),
                _ => {
                    let mut req = reqs.remove(&i).expect("no request to fire");
                    let crux_time::TimeRequest::NotifyAfter { id, .. } = req.operation else { panic!() };
                    core.resolve(&mut req, crux_time::TimeResponse::DurationElapsed { id }).expect("resolve")
                }
            };
            let (ids, outcomes) = core.view();
            let which = |id: usize| ids.iter().find(|(_, x)| *x == id).map(|(i, _)| *i).unwrap_or(0);
            let mut ej = vec![];
            for e in effs {
                let LEffect::Time(req) = e;
                match req.operation.clone() {
                    crux_time::TimeRequest::NotifyAfter { id, .. } => {
                        ej.push(json!({"k":"start","i":which(id.0)}));
                        reqs.insert(which(id.0), req);
                    }
                    crux_time::TimeRequest::Clear { id } => ej.push(json!({"k":"clear","i":which(id.0)})),
                    other => ej.push(json!({"k":format!("{other:?}")})),
                }
            }
            let evs: Vec<Value> = outcomes[seen_out..].iter().map(|(i, o)| json!({"i":i,"o":o})).collect();
            seen_out = outcomes.len();
            obs.push(json!({"effs": ej, "evs": evs, "set": crux_time::verif_cleared_len() - base}));
        }
        json!(obs)
    }));
    r.unwrap_or_else(|_| json!("panic"))
}

// ---------------------------------------------------------------------------------------------

pub fn run_case(case: &Value, nconc: usize) -> Vec<Value> {
    if case["kind"] == "ltimer" {
        // one execution per behaviour; the set size may be the strict one or the D11 one
        let steps = case["out"].as_array().cloned().unwrap_or_default();
        let obs = run_ltimer(&steps);
        let strict: Vec<Value> = steps.iter().map(|s| json!({"effs": s["effs"], "evs": s["evs"], "set": s["set"]})).collect();
        let kf: Vec<Value> = steps.iter().map(|s| json!({"effs": s["effs"], "evs": s["evs"], "set": s["setkf"]})).collect();
        if obs == json!(strict) {
            return vec![json!({"ok":true})];
        }
        let known = if obs == json!(kf) { json!("D11") } else { Value::Null };
        return vec![json!({"ok":false,"known":known,"kind":"ltimer","in":case["in"],"conc":0,
                           "expected": strict, "observed": obs})];
    }
    let kind = case["kind"].as_str().unwrap();
    let inp = &case["in"];
    let exp = &case["out"];
    let mut res = vec![];
    for v in 0..nconc {
        let (observed, expected_c, ok) = match kind {
            "http_outcome" => {
                let o = run_http_outcome(inp, v);
                let ok = outcome_matches(exp, &o);
                (o, exp.clone(), ok)
            }
            "kv" => {
                let o = run_kv(inp, v);
                // the spec names the prefix of a list call `prefix`; tokens are the key tokens
                let ok = *exp == o;
                (o, exp.clone(), ok)
            }
            "valueeq" => {
                let o = run_valueeq(inp, v);
                let ok = *exp == o;
                (o, exp.clone(), ok)
            }
            "http_builder" => {
                let o = run_http_builder(inp, exp, v);
                let ok = builder_matches(exp, &o);
                (o, exp.clone(), ok)
            }
            "http_mw" => {
                let server = case["server"].as_array().cloned().unwrap_or_default();
                let o = run_http_mw(inp, &server, v);
                let e = mw_expected_conc(exp);
                let ok = e == o;
                (o, e, ok)
            }
            other => panic!("unknown case kind {other}"),
        };
        if ok {
            res.push(json!({"ok":true}));
            continue;
        }
        // a known deviation?
        let mut known = Value::Null;
        if let Some(kf) = case["kf"].as_object() {
            for (id, dev) in kf {
                let m = match kind {
                    "http_outcome" => *dev == observed,
                    "http_mw" => mw_expected_conc(dev) == observed,
                    _ => *dev == observed,
                };
                if m {
                    known = json!(id);
                }
            }
        }
        res.push(json!({"ok":false,"known":known,"kind":kind,"in":inp,"conc":v,"expected":expected_c,"observed":observed}));
    }
    res
}
