//! Counting global allocator: peak number of bytes live above the level at the last reset.
use std::alloc::{GlobalAlloc, Layout, System};
use std::sync::atomic::{AtomicUsize, Ordering};

pub struct Counting;

static CUR: AtomicUsize = AtomicUsize::new(0);
static PEAK: AtomicUsize = AtomicUsize::new(0);
static BASE: AtomicUsize = AtomicUsize::new(0);

unsafe impl GlobalAlloc for Counting {
    unsafe fn alloc(&self, l: Layout) -> *mut u8 {
        let c = CUR.fetch_add(l.size(), Ordering::Relaxed) + l.size();
        PEAK.fetch_max(c, Ordering::Relaxed);
        System.alloc(l)
    }
    unsafe fn dealloc(&self, p: *mut u8, l: Layout) {
        CUR.fetch_sub(l.size(), Ordering::Relaxed);
        System.dealloc(p, l)
    }
}

pub fn reset_peak() {
    let c = CUR.load(Ordering::Relaxed);
    BASE.store(c, Ordering::Relaxed);
    PEAK.store(c, Ordering::Relaxed);
}

pub fn peak() -> u64 {
    PEAK.load(Ordering::Relaxed).saturating_sub(BASE.load(Ordering::Relaxed)) as u64
}
