//! Legacy capability API interpreter: the same program DSL, run through `CapabilityContext`
//! (spawn / request_from_shell / stream_from_shell / notify_shell / update_app) instead of Command.
//! Expressible subset: event, notify, chain, async scripts, all/and (as independent tasks); scripts
//! without join handles (the capability API has none).
use std::sync::{Arc, Mutex};

use crux_core::capability::CapabilityContext;
use futures::future::BoxFuture;
use futures::stream::BoxStream;
use futures::{FutureExt, StreamExt};

use crate::app::{Capabilities, Event, VOp};
use crate::dsl::{apply_f, Cmd, Instr, Leaf, Src};

type Ctx = CapabilityContext<VOp, Event>;
type SharedStream = Arc<Mutex<BoxStream<'static, u32>>>;

#[derive(Clone)]
struct Env {
    inst: u32,
    tid: u32,
    seq: u32,
    regs: [u32; 5],
    streams: Vec<Option<SharedStream>>,
}

impl Env {
    fn new(inst: u32, tid: u32) -> Self {
        Env { inst, tid, seq: 0, regs: [0; 5], streams: vec![None, None, None] }
    }
    fn stamp(&mut self) -> [u32; 3] {
        let s = self.seq;
        self.seq += 1;
        [self.inst, self.tid, s]
    }
    fn src(&self, s: &Src) -> u32 {
        match s {
            Src::C { c } => *c,
            Src::R { r } => self.regs[*r as usize],
        }
    }
}

struct YieldOnce(bool);
impl std::future::Future for YieldOnce {
    type Output = ();
    fn poll(mut self: std::pin::Pin<&mut Self>, cx: &mut std::task::Context<'_>) -> std::task::Poll<()> {
        if self.0 {
            std::task::Poll::Ready(())
        } else {
            self.0 = true;
            cx.waker().wake_by_ref();
            std::task::Poll::Pending
        }
    }
}

fn leaf_future(ctx: &Ctx, env: &mut Env, leaf: &Leaf) -> BoxFuture<'static, u32> {
    match leaf {
        Leaf::Req { tag, src, .. } => {
            let op = VOp { o: env.stamp(), tag: *tag, val: env.src(src), live: Default::default() };
            ctx.request_from_shell(op).boxed()
        }
        Leaf::Next { s } => {
            let st = env.streams[*s as usize].clone().expect("stream not open");
            futures::future::poll_fn(move |cx| st.lock().unwrap().poll_next_unpin(cx).map(|o| o.unwrap_or(0))).boxed()
        }
        Leaf::Joinh { .. } => panic!("join handles do not exist in the capability API"),
        Leaf::Recv { .. } | Leaf::Grecv { .. } => panic!("channels are not part of the legacy family"),
    }
}

fn run_script(ctx: Ctx, code: Arc<Vec<Instr>>, mut env: Env) -> BoxFuture<'static, ()> {
    let token = crate::dsl::new_token(env.inst, env.tid);
    async move {
        let _token = token;
        let mut pc: usize = 0;
        while pc < code.len() {
            match &code[pc] {
                Instr::Emit { tag, src } => {
                    let val = env.src(src);
                    ctx.update_app(Event::Em { o: env.stamp(), tag: *tag, val });
                    pc += 1;
                }
                Instr::Notify { tag, src } => {
                    let val = env.src(src);
                    ctx.notify_shell(VOp { o: env.stamp(), tag: *tag, val, live: Default::default() }).await;
                    pc += 1;
                }
                Instr::Req { tag, src, dst, .. } => {
                    let val = env.src(src);
                    let op = VOp { o: env.stamp(), tag: *tag, val, live: Default::default() };
                    env.regs[*dst as usize] = ctx.request_from_shell(op).await;
                    pc += 1;
                }
                Instr::Open { tag, src, s, .. } => {
                    let val = env.src(src);
                    let op = VOp { o: env.stamp(), tag: *tag, val, live: Default::default() };
                    env.streams[*s as usize] = Some(Arc::new(Mutex::new(ctx.stream_from_shell(op).boxed())));
                    pc += 1;
                }
                Instr::Next { s, dst, els } => {
                    let st = env.streams[*s as usize].clone().expect("stream not open");
                    match futures::future::poll_fn(move |cx| st.lock().unwrap().poll_next_unpin(cx)).await {
                        Some(v) => {
                            env.regs[*dst as usize] = v;
                            pc += 1;
                        }
                        None => {
                            env.regs[*dst as usize] = 0;
                            pc = (*els as usize) - 1;
                        }
                    }
                }
                Instr::Goto { pc: p } => pc = (*p as usize) - 1,
                Instr::Map { f, reg } => {
                    env.regs[*reg as usize] = apply_f(f, env.regs[*reg as usize]);
                    pc += 1;
                }
                Instr::Spawn { script, .. } => {
                    let mut child = env.clone();
                    child.tid = script.tid;
                    child.seq = 0;
                    child.streams = vec![None, None, None];
                    ctx.spawn(run_script(ctx.clone(), Arc::new(script.code.clone()), child));
                    pc += 1;
                }
                Instr::Abort { .. } | Instr::Joinh { .. } | Instr::Abortc { .. } => panic!("join handles do not exist in the capability API"),
                Instr::Join { leaves, dst } => {
                    let futs: Vec<_> = leaves.iter().map(|l| leaf_future(&ctx, &mut env, l)).collect();
                    let vals = futures::future::join_all(futs).await;
                    for (i, v) in vals.into_iter().enumerate() {
                        let d = dst.get(i).copied().unwrap_or(0) as usize;
                        if d != 0 {
                            env.regs[d] = v;
                        }
                    }
                    pc += 1;
                }
                Instr::Select { leaves, dst, idx } => {
                    let futs: Vec<_> = leaves.iter().map(|l| leaf_future(&ctx, &mut env, l)).collect();
                    let (v, i, rest) = futures::future::select_all(futs).await;
                    drop(rest);
                    if *dst != 0 {
                        env.regs[*dst as usize] = v;
                    }
                    if *idx != 0 {
                        env.regs[*idx as usize] = (i + 1) as u32;
                    }
                    pc += 1;
                }
                Instr::Yield => {
                    YieldOnce(false).await;
                    pc += 1;
                }
                Instr::Trynext { s, dst } => {
                    let st = env.streams[*s as usize].clone().expect("stream not open");
                    let item = st.lock().unwrap().next().now_or_never();
                    env.regs[*dst as usize] = item.flatten().unwrap_or(0);
                    pc += 1;
                }
                Instr::Chan { .. } | Instr::Send { .. } | Instr::Closec { .. } | Instr::Recv { .. } | Instr::Tryrecv { .. } | Instr::Gsend { .. } | Instr::Grecv { .. } => {
                    panic!("channels are not part of the legacy family")
                }
            }
        }
    }
    .boxed()
}

/// the chain `root.stages.then_send(sink)` as a script (the capability API has no builders)
fn chain_code(root: &crate::dsl::Root, stages: &[crate::dsl::Stage], sink: &crate::dsl::Sink) -> Vec<Instr> {
    let mut body = vec![];
    for st in stages {
        body.push(Instr::Map { f: st.f.clone(), reg: 1 });
        if st.k != "map" {
            body.push(Instr::Req { tag: st.tag, src: Src::R { r: 1 }, dst: 1, l: false });
        }
    }
    if root.k == "req" {
        let mut code = vec![Instr::Req { tag: root.tag, src: Src::C { c: root.val }, dst: 1, l: false }];
        code.extend(body);
        code.push(Instr::Emit { tag: sink.tag, src: Src::R { r: 1 } });
        code
    } else {
        let n = body.len() as u32;
        let mut code = vec![
            Instr::Open { tag: root.tag, src: Src::C { c: root.val }, s: 1, l: false },
            Instr::Next { s: 1, dst: 1, els: n + 5 },
        ];
        code.extend(body);
        code.push(Instr::Emit { tag: sink.tag, src: Src::R { r: 1 } });
        code.push(Instr::Goto { pc: 2 });
        code
    }
}

pub fn run_legacy(caps: &Capabilities, prog: &Cmd, inst: u32) {
    let ctx = caps.op.context.clone();
    match prog {
        Cmd::Done { .. } => {}
        Cmd::Event { tid, tag, val, .. } => {
            let code = vec![Instr::Emit { tag: *tag, src: Src::C { c: *val } }];
            ctx.spawn(run_script(ctx.clone(), Arc::new(code), Env::new(inst, *tid)));
        }
        Cmd::Notify { tid, tag, val, .. } => {
            let code = vec![Instr::Notify { tag: *tag, src: Src::C { c: *val } }];
            ctx.spawn(run_script(ctx.clone(), Arc::new(code), Env::new(inst, *tid)));
        }
        Cmd::Chain { tid, root, stages, sink, .. } => {
            let code = chain_code(root, stages, sink);
            ctx.spawn(run_script(ctx.clone(), Arc::new(code), Env::new(inst, *tid)));
        }
        Cmd::Async { tid, code, .. } => {
            ctx.spawn(run_script(ctx.clone(), Arc::new(code.clone()), Env::new(inst, *tid)));
        }
        Cmd::And { a, b, .. } => {
            run_legacy(caps, a, inst);
            run_legacy(caps, b, inst);
        }
        Cmd::All { cs, .. } => {
            for c in cs {
                run_legacy(caps, &c.c, inst);
            }
        }
        other => panic!("not expressible with the capability API: {other:?}"),
    }
}
