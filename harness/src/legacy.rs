//! Legacy capability API interpreter (filled in later).
use crate::app::Capabilities;
use crate::dsl::Cmd;

pub fn run_legacy(_caps: &Capabilities, _prog: &Cmd, _inst: u32) {
    unimplemented!("legacy host")
}
