//! Controller for the schedule points (`crux_core::verif::point`): parks every registered thread at
//! each point and lets exactly one thread run at a time, so that a chosen interleaving (a sequence
//! of thread choices, e.g. a TLC behaviour of CruxMT projected to its process ids) is forced onto
//! real threads.
use std::cell::Cell;
use std::sync::{Arc, Condvar, Mutex};
use std::time::Duration;

thread_local! {
    static TID: Cell<Option<usize>> = const { Cell::new(None) };
}

#[derive(Default)]
struct Th {
    parked_at: Option<&'static str>,
    granted: bool,
    finished: bool,
    history: Vec<&'static str>,
}

pub struct Ctl {
    st: Mutex<Vec<Th>>,
    cv: Condvar,
}

#[derive(Debug)]
pub struct Stuck(pub usize);

impl Ctl {
    pub fn new(n: usize) -> Arc<Ctl> {
        Arc::new(Ctl { st: Mutex::new((0..n).map(|_| Th::default()).collect()), cv: Condvar::new() })
    }

    pub fn install(self: &Arc<Self>) {
        let me = self.clone();
        crux_core::verif::install(Some(Arc::new(move |name| me.point(name))));
    }

    pub fn uninstall() {
        crux_core::verif::install(None);
    }

    /// called by a worker thread before anything else
    pub fn register(&self, i: usize) {
        TID.with(|t| t.set(Some(i)));
    }

    /// called by a worker thread when its work is over
    pub fn finish(&self) {
        if let Some(i) = TID.with(|t| t.get()) {
            let mut st = self.st.lock().unwrap();
            st[i].finished = true;
            st[i].parked_at = None;
            self.cv.notify_all();
        }
        TID.with(|t| t.set(None));
    }

    pub fn point(&self, name: &'static str) {
        let Some(i) = TID.with(|t| t.get()) else { return };
        let mut st = self.st.lock().unwrap();
        st[i].parked_at = Some(name);
        st[i].granted = false;
        st[i].history.push(name);
        self.cv.notify_all();
        while !st[i].granted {
            st = self.cv.wait(st).unwrap();
        }
        st[i].parked_at = None;
    }

    /// wait until every unfinished thread is parked
    pub fn wait_all_parked(&self) -> Result<(), Stuck> {
        let mut st = self.st.lock().unwrap();
        loop {
            if let Some(i) = st.iter().position(|t| !t.finished && t.parked_at.is_none()) {
                let (g, to) = self.cv.wait_timeout(st, Duration::from_secs(5)).unwrap();
                st = g;
                if to.timed_out() && !st[i].finished && st[i].parked_at.is_none() {
                    return Err(Stuck(i));
                }
            } else {
                return Ok(());
            }
        }
    }

    pub fn parked(&self) -> Vec<Option<&'static str>> {
        self.st.lock().unwrap().iter().map(|t| if t.finished { None } else { t.parked_at }).collect()
    }

    pub fn finished(&self, i: usize) -> bool {
        self.st.lock().unwrap()[i].finished
    }

    /// let thread i run from the point it is parked at to its next point (or to its end)
    pub fn step(&self, i: usize) -> Result<(), Stuck> {
        let mut st = self.st.lock().unwrap();
        if st[i].finished || st[i].parked_at.is_none() {
            return Ok(());
        }
        st[i].granted = true;
        st[i].parked_at = None;
        self.cv.notify_all();
        loop {
            if st[i].finished || st[i].parked_at.is_some() {
                return Ok(());
            }
            let (g, to) = self.cv.wait_timeout(st, Duration::from_secs(5)).unwrap();
            st = g;
            if to.timed_out() && !st[i].finished && st[i].parked_at.is_none() {
                return Err(Stuck(i));
            }
        }
    }

    pub fn histories(&self) -> Vec<Vec<&'static str>> {
        self.st.lock().unwrap().iter().map(|t| t.history.clone()).collect()
    }
}
