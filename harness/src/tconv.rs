//! C19: rows of time conversions executed on the real crux_time types; inputs and results travel as decimal
//! strings (they do not fit TLC's integers; Apalache validates the rows against TimeConv.tla).
use std::panic::{catch_unwind, AssertUnwindSafe};
use std::time::{Duration as StdDuration, SystemTime};

use chrono::{DateTime, TimeDelta, Utc};
use serde::{Deserialize, Serialize};
use serde_json::{json, Value};

#[derive(Deserialize, Serialize, Clone, Debug)]
pub struct Row {
    pub kind: String,
    pub a: String,
    #[serde(default)]
    pub b: String,
}

fn wire_nanos(d: &crux_time::Duration) -> u64 {
    serde_json::to_value(d).unwrap()["nanos"].as_u64().unwrap()
}
fn wire_instant(i: &crux_time::Instant) -> (u64, u64) {
    let v = serde_json::to_value(i).unwrap();
    (v["seconds"].as_u64().unwrap(), v["nanos"].as_u64().unwrap())
}
fn mk_instant(s: u64, n: u64) -> Option<crux_time::Instant> {
    serde_json::from_value(json!({"seconds": s, "nanos": n})).ok()
}

fn ok2(x: impl ToString, y: impl ToString) -> Value {
    json!({"res":"ok","x":x.to_string(),"y":y.to_string()})
}
fn reject() -> Value {
    json!({"res":"reject","x":"0","y":"0"})
}

/// None: the row cannot be set up on this platform (the input itself is not representable)
fn exec(r: &Row) -> Option<Value> {
    let a_u = || r.a.parse::<u64>().ok();
    let b_u = || r.b.parse::<u64>().ok();
    Some(match r.kind.as_str() {
        "dur_from_millis" => ok2(wire_nanos(&crux_time::Duration::from_millis(a_u()?)), 0),
        "dur_from_secs" => ok2(wire_nanos(&crux_time::Duration::from_secs(a_u()?)), 0),
        "std_to_wire_dur" => {
            let d = StdDuration::new(a_u()?, b_u()? as u32);
            ok2(wire_nanos(&crux_time::Duration::from(d)), 0)
        }
        "wire_to_std_dur" => {
            let d: StdDuration = crux_time::Duration::new(a_u()?).into();
            ok2(d.as_secs(), d.subsec_nanos())
        }
        "delta_to_wire_dur" => {
            let t = TimeDelta::new(r.a.parse::<i64>().ok()?, b_u()? as u32)?;
            match crux_time::Duration::try_from(t) {
                Ok(d) => ok2(wire_nanos(&d), 0),
                Err(_) => reject(),
            }
        }
        "wire_to_delta" => match TimeDelta::try_from(crux_time::Duration::new(a_u()?)) {
            Ok(t) => ok2(t.num_seconds(), t.subsec_nanos()),
            Err(_) => reject(),
        },
        "instant_new" => {
            let i = crux_time::Instant::new(a_u()?, b_u()? as u32);
            let (s, n) = wire_instant(&i);
            ok2(s, n)
        }
        "systime_to_instant" => {
            let t = SystemTime::UNIX_EPOCH.checked_add(StdDuration::new(a_u()?, b_u()? as u32))?;
            let (s, n) = wire_instant(&crux_time::Instant::from(t));
            ok2(s, n)
        }
        "instant_to_systime" => {
            let t: SystemTime = mk_instant(a_u()?, b_u()?)?.into();
            let d = t.duration_since(SystemTime::UNIX_EPOCH).ok()?;
            ok2(d.as_secs(), d.subsec_nanos())
        }
        "instant_to_datetime" => match DateTime::<Utc>::try_from(mk_instant(a_u()?, b_u()?)?) {
            Ok(t) => ok2(t.timestamp(), t.timestamp_subsec_nanos()),
            Err(_) => reject(),
        },
        "datetime_to_instant" => {
            let t = DateTime::<Utc>::from_timestamp(r.a.parse::<i64>().ok()?, b_u()? as u32)?;
            match crux_time::Instant::try_from(t) {
                Ok(i) => {
                    let (s, n) = wire_instant(&i);
                    ok2(s, n)
                }
                Err(_) => reject(),
            }
        }
        "wire_instant_deser" => match mk_instant(a_u()?, b_u()?) {
            Some(i) => {
                let (s, n) = wire_instant(&i);
                ok2(s, n)
            }
            None => reject(),
        },
        "chrono_max_ts" => ok2(DateTime::<Utc>::MAX_UTC.timestamp(), 0),
        other => panic!("unknown conversion {other}"),
    })
}

pub fn run_row(r: &Row) -> Option<Value> {
    // (a panic is how the infallible constructors and From impls reject)
    let out = match catch_unwind(AssertUnwindSafe(|| exec(r))) {
        Ok(v) => v?,
        Err(_) => reject(),
    };
    let mut o = out;
    o["kind"] = json!(r.kind);
    o["a"] = json!(r.a);
    o["b"] = json!(if r.b.is_empty() { "0".to_string() } else { r.b.clone() });
    Some(o)
}
