//! Executes cases (program table + schedule) on the real crates under a chosen host and records
//! ndjson traces for the TLA+ trace validators.
use std::collections::HashMap;
use std::panic::{catch_unwind, AssertUnwindSafe};
use std::pin::Pin;
use std::sync::atomic::{AtomicBool, Ordering};
use std::sync::Arc;
use std::task::{Context, Poll, Wake, Waker};

use crux_core::bridge::{Bridge, BridgeWithSerializer};
use crux_core::command::CommandOutput;
use crux_core::{Core, Request};
use futures::Stream;
use rand::rngs::StdRng;
use rand::{Rng, SeedableRng};
use serde::{Deserialize, Serialize};
use serde_json::{json, Value};

use crate::app::{install_case, CaseCtx, Effect, EffectFfi, Event, Table, VApp, VOp, ViewModel};
use crate::dsl::{Builder, Cmd_};

#[derive(Deserialize, Serialize, Clone, Debug)]
#[serde(tag = "a", rename_all = "snake_case")]
pub enum StepIn {
    /// deliver Event::Run(p) (Core/Bridge) or build program p (direct hosts)
    Run { p: u32 },
    Noop,
    /// a valid event with a payload of n bytes (the app treats it like Noop)
    Big { n: u32 },
    /// AppTester only: hand the event with this stamp, which an earlier call returned, back through `update`
    Feed { o: [u32; 3] },
    Resolve { o: [u32; 3], val: u32, #[serde(default)] nt: bool },
    Drop { o: [u32; 3], #[serde(default)] nt: bool },
    Abort { c: [u32; 2], #[serde(default)] nt: bool },
    /// bridge only: malformed bytes as an event / as the response to request o
    BadEvent { bytes: Vec<u8> },
    BadResponse { o: [u32; 3], bytes: Vec<u8> },
    /// bridge only: damaged bytes that STILL decode (trailing bytes, a changed payload): valid input, to be
    /// treated as the event / value they decode to
    RawEvent { bytes: Vec<u8> },
    RawResponse { o: [u32; 3], bytes: Vec<u8> },
}

#[derive(Deserialize, Serialize, Clone, Debug)]
pub struct Policy {
    pub kind: String, // "random"
    pub seed: u64,
    pub max: u32,
    #[serde(default)]
    pub p_drop: f64,
    #[serde(default)]
    pub p_abort: f64,
    #[serde(default)]
    pub p_late: f64,
    #[serde(default)]
    pub p_noop: f64,
    #[serde(default)]
    pub p_run: f64,
    /// direct host: probability that an action is NOT followed by the inspection calls, so that
    /// several wake-ups are delivered before the command next settles
    #[serde(default)]
    pub p_batch: f64,
    /// bridge hosts: probability of offering malformed bytes (as an event or as a response)
    #[serde(default)]
    pub p_bad: f64,
    /// long histories: while the shell holds more requests than this, nothing new is started and
    /// (where the host can) the oldest one is dropped every other step; 0 = no limit
    #[serde(default)]
    pub max_out: u32,
}

#[derive(Deserialize, Serialize, Clone, Debug)]
pub struct Case {
    #[serde(default)]
    pub name: String,
    pub host: String,
    #[serde(flatten)]
    pub table: Table,
    #[serde(default)]
    pub steps: Vec<StepIn>,
    #[serde(default)]
    pub policy: Option<Policy>,
}

fn eff_json(op: &VOp) -> Value {
    json!({"kind":"eff","o":op.o,"tag":op.tag,"val":op.val})
}
fn ev_json(e: &Event) -> Value {
    match e {
        Event::Run(p) => json!({"kind":"run","p":p}),
        Event::Noop => json!({"kind":"noop"}),
        Event::Data(d) => json!({"kind":"data","n":d.len()}),
        Event::Text(t) => json!({"kind":"text","n":t.len()}),
        Event::Em { o, tag, val } => json!({"kind":"ev","o":o,"tag":tag,"val":val}),
    }
}

fn res_str<T>(r: &Result<T, crux_core::ResolveError>) -> &'static str {
    match r {
        Ok(_) => "ok",
        Err(crux_core::ResolveError::Never) => "never",
        Err(crux_core::ResolveError::FinishedMany) => "finished",
    }
}

/// What a host reports after one shell action.
pub struct Obs {
    pub line: Value,
    /// operations of the effects handed over by this call
    pub new_ops: Vec<VOp>,
    /// bridge only: arity kind of each new request as the registry recorded it (a real shell knows
    /// it from the operation type); requests the bridge has forgotten must not be answered again
    pub kinds: Vec<&'static str>,
}

pub trait Host {
    fn run(&mut self, p: u32) -> Obs;
    fn noop(&mut self) -> Option<Obs> {
        None
    }
    fn resolve(&mut self, o: [u32; 3], val: u32) -> Option<Obs>;
    /// a valid event carrying n bytes
    fn big(&mut self, _n: u32) -> Option<Obs> {
        None
    }
    fn feed(&mut self, _o: [u32; 3]) -> Option<Obs> {
        None
    }
    /// bridge only: the id this notification went out under is in the registry right now, so a (wrong)
    /// answer to it is something the bridge has to reject rather than something it may panic on
    fn note_answerable(&self, _o: [u32; 3]) -> bool {
        false
    }
    fn drop_req(&mut self, _o: [u32; 3]) -> Option<Obs> {
        None
    }
    fn abort(&mut self, c: [u32; 2]) -> Option<Obs>;
    fn bad_event(&mut self, _bytes: &[u8]) -> Option<Obs> {
        None
    }
    fn bad_response(&mut self, _o: [u32; 3], _bytes: &[u8]) -> Option<Obs> {
        None
    }
    fn raw_event(&mut self, _bytes: &[u8]) -> Option<Obs> {
        None
    }
    fn raw_response(&mut self, _o: [u32; 3], _bytes: &[u8]) -> Option<Obs> {
        None
    }
    fn can_drop(&self) -> bool {
        false
    }
    /// direct host: skip the inspection calls after the next action
    fn set_notake(&mut self, _on: bool) {}
    fn abortable(&self) -> Vec<[u32; 2]>;
    /// bridge only: (valid encodings of a few events, valid encoding of a response value)
    fn seeds(&self) -> Option<(Vec<Vec<u8>>, Vec<u8>)> {
        None
    }
    /// would the bridge's deserializer accept these bytes as an event / as a response?
    fn decodes(&self, _bytes: &[u8], _as_event: bool) -> bool {
        true
    }
}

// ---------------------------------------------------------------------------------------------
// direct: effects()/events()/is_done() on the Command itself

pub struct Direct {
    ctx: Arc<CaseCtx>,
    cmd: Option<Cmd_>,
    held: HashMap<[u32; 3], Request<VOp>>,
    notake: bool,
}

impl Direct {
    pub fn new(ctx: Arc<CaseCtx>) -> Self {
        Direct { ctx, cmd: None, held: HashMap::new(), notake: false }
    }
    fn take(&mut self, mut line: Value) -> Obs {
        if self.notake && line["e"] != "start" {
            line.as_object_mut().unwrap().insert("notake".into(), json!(true));
            return Obs { line, new_ops: vec![], kinds: vec![] };
        }
        let cmd = self.cmd.as_mut().unwrap();
        // asked before anything is collected: done means no task left AND nothing waiting to be collected
        let done0 = cmd.is_done();
        let effs: Vec<Effect> = cmd.effects().collect();
        let evs: Vec<Event> = cmd.events().collect();
        let done = cmd.is_done();
        let live = cmd.verif_live_tasks();
        // operation values that exist now: the ones in requests the shell holds (and nothing else, C13)
        let ops = crate::app::live_ops() - self.ctx.ops_base;
        let mut new_ops = vec![];
        let mut ej = vec![];
        for e in effs {
            let Effect::Op(req) = e;
            ej.push(eff_json(&req.operation));
            new_ops.push(req.operation.clone());
            self.held.insert(req.operation.o, req);
        }
        let m = line.as_object_mut().unwrap();
        m.insert("effs".into(), Value::Array(ej));
        m.insert("evs".into(), Value::Array(evs.iter().map(ev_json).collect()));
        m.insert("done".into(), json!(done));
        m.insert("done0".into(), json!(done0));
        m.insert("live".into(), json!(live));
        m.insert("ops".into(), json!(ops));
        m.insert("alive".into(), json!(crate::dsl::alive()));
        Obs { line, new_ops, kinds: vec![] }
    }
}

impl Host for Direct {
    fn run(&mut self, p: u32) -> Obs {
        let b = Builder { inst: 0, aborts: self.ctx.aborts.clone() };
        self.cmd = Some(b.build(&self.ctx.table.progs[p as usize]));
        self.take(json!({"e":"start","p":p}))
    }
    fn resolve(&mut self, o: [u32; 3], val: u32) -> Option<Obs> {
        let req = self.held.get_mut(&o)?;
        let r = req.resolve(val);
        Some(self.take(json!({"e":"resolve","o":o,"val":val,"res":res_str(&r)})))
    }
    fn drop_req(&mut self, o: [u32; 3]) -> Option<Obs> {
        let req = self.held.remove(&o)?;
        drop(req);
        Some(self.take(json!({"e":"drop","o":o})))
    }
    fn abort(&mut self, c: [u32; 2]) -> Option<Obs> {
        let f = self.ctx.aborts.lock().unwrap().get(&(c[0], c[1])).cloned()?;
        f();
        Some(self.take(json!({"e":"abort","c":c})))
    }
    fn can_drop(&self) -> bool {
        true
    }
    fn set_notake(&mut self, on: bool) {
        self.notake = on;
    }
    fn abortable(&self) -> Vec<[u32; 2]> {
        let mut v: Vec<_> = self.ctx.aborts.lock().unwrap().keys().map(|k| [k.0, k.1]).collect();
        v.sort();
        v
    }
}

// ---------------------------------------------------------------------------------------------
// stream: the command is polled by hand as a futures::Stream; it is polled again only when the
// waker it was given has been woken (a lost wake-up shows as a missing output)

struct FlagWaker(AtomicBool);
impl Wake for FlagWaker {
    fn wake(self: Arc<Self>) {
        self.0.store(true, Ordering::SeqCst);
    }
    fn wake_by_ref(self: &Arc<Self>) {
        self.0.store(true, Ordering::SeqCst);
    }
}

pub struct StreamHost {
    ctx: Arc<CaseCtx>,
    cmd: Option<Pin<Box<Cmd_>>>,
    held: HashMap<[u32; 3], Request<VOp>>,
    flag: Arc<FlagWaker>,
    ended: bool,
}

impl StreamHost {
    pub fn new(ctx: Arc<CaseCtx>) -> Self {
        StreamHost {
            ctx,
            cmd: None,
            held: HashMap::new(),
            flag: Arc::new(FlagWaker(AtomicBool::new(true))),
            ended: false,
        }
    }
    fn take(&mut self, mut line: Value) -> Obs {
        let mut ej = vec![];
        let mut evs = vec![];
        let mut new_ops = vec![];
        if self.flag.0.swap(false, Ordering::SeqCst) && !self.ended {
            let waker: Waker = self.flag.clone().into();
            let mut cx = Context::from_waker(&waker);
            loop {
                match self.cmd.as_mut().unwrap().as_mut().poll_next(&mut cx) {
                    Poll::Ready(Some(CommandOutput::Effect(Effect::Op(req)))) => {
                        ej.push(eff_json(&req.operation));
                        new_ops.push(req.operation.clone());
                        self.held.insert(req.operation.o, req);
                    }
                    Poll::Ready(Some(CommandOutput::Event(e))) => evs.push(ev_json(&e)),
                    Poll::Ready(None) => {
                        self.ended = true;
                        break;
                    }
                    Poll::Pending => break,
                }
            }
        }
        let live = self.cmd.as_ref().unwrap().verif_live_tasks();
        let m = line.as_object_mut().unwrap();
        m.insert("effs".into(), Value::Array(ej));
        m.insert("evs".into(), Value::Array(evs));
        m.insert("done".into(), json!(self.ended));
        m.insert("live".into(), json!(live));
        m.insert("alive".into(), json!(crate::dsl::alive()));
        Obs { line, new_ops, kinds: vec![] }
    }
}

impl Host for StreamHost {
    fn run(&mut self, p: u32) -> Obs {
        let b = Builder { inst: 0, aborts: self.ctx.aborts.clone() };
        self.cmd = Some(Box::pin(b.build(&self.ctx.table.progs[p as usize])));
        self.take(json!({"e":"start","p":p}))
    }
    fn resolve(&mut self, o: [u32; 3], val: u32) -> Option<Obs> {
        let req = self.held.get_mut(&o)?;
        let r = req.resolve(val);
        Some(self.take(json!({"e":"resolve","o":o,"val":val,"res":res_str(&r)})))
    }
    fn drop_req(&mut self, o: [u32; 3]) -> Option<Obs> {
        let req = self.held.remove(&o)?;
        drop(req);
        Some(self.take(json!({"e":"drop","o":o})))
    }
    fn abort(&mut self, _c: [u32; 2]) -> Option<Obs> {
        None // abort wakes nobody: a stream host would (correctly) not notice; not driven here
    }
    fn can_drop(&self) -> bool {
        true
    }
    fn abortable(&self) -> Vec<[u32; 2]> {
        vec![]
    }
}

// ---------------------------------------------------------------------------------------------
// Core (typed)

pub struct CoreHost {
    ctx: Arc<CaseCtx>,
    core: Core<VApp>,
    held: HashMap<[u32; 3], Request<VOp>>,
    seen: usize,
}

impl CoreHost {
    pub fn new(ctx: Arc<CaseCtx>) -> Self {
        CoreHost { ctx, core: Core::new(), held: HashMap::new(), seen: 0 }
    }
    fn obs(&mut self, mut line: Value, effs: Vec<Effect>) -> Obs {
        let ops = crate::app::live_ops() - self.ctx.ops_base;
        if std::env::var_os("VERIF_OPS_DEBUG").is_some() {
            eprintln!("OBS {} ops={ops} alive={:?}", line["e"], crate::dsl::alive());
        }
        let mut new_ops = vec![];
        let mut ej = vec![];
        for e in effs {
            let Effect::Op(req) = e;
            ej.push(eff_json(&req.operation));
            new_ops.push(req.operation.clone());
            self.held.insert(req.operation.o, req);
        }
        line.as_object_mut().unwrap().insert("ops".into(), json!(ops));
        let view = self.core.view();
        let delta: Vec<Value> = view.log[self.seen..].iter().map(ev_json).collect();
        self.seen = view.log.len();
        let m = line.as_object_mut().unwrap();
        m.insert("effs".into(), Value::Array(ej));
        m.insert("log".into(), Value::Array(delta));
        m.insert("xt".into(), json!(self.core.verif_executor_tasks()));
        m.insert("alive".into(), json!(crate::dsl::alive()));
        m.insert(
            "maxin".into(),
            json!(self.ctx.max_in_update.load(Ordering::SeqCst)),
        );
        Obs { line, new_ops, kinds: vec![] }
    }
}

impl Host for CoreHost {
    fn run(&mut self, p: u32) -> Obs {
        let effs = self.core.process_event(Event::Run(p));
        self.obs(json!({"e":"event","ev":{"kind":"run","p":p}}), effs)
    }
    fn noop(&mut self) -> Option<Obs> {
        let effs = self.core.process_event(Event::Noop);
        Some(self.obs(json!({"e":"event","ev":{"kind":"noop"}}), effs))
    }
    fn big(&mut self, n: u32) -> Option<Obs> {
        let effs = self.core.process_event(Event::Data(vec![7; n as usize]));
        Some(self.obs(json!({"e":"event","ev":{"kind":"data","n":n}}), effs))
    }
    fn resolve(&mut self, o: [u32; 3], val: u32) -> Option<Obs> {
        let req = self.held.get_mut(&o)?;
        let r = self.core.resolve(req, val);
        let res = res_str(&r);
        let effs = r.unwrap_or_default();
        Some(self.obs(json!({"e":"resolve","o":o,"val":val,"res":res}), effs))
    }
    fn drop_req(&mut self, o: [u32; 3]) -> Option<Obs> {
        // a typed shell may drop a request; nothing runs until the next call
        let req = self.held.remove(&o)?;
        drop(req);
        Some(Obs { line: json!({"e":"drop","o":o}), new_ops: vec![], kinds: vec![] })
    }
    fn abort(&mut self, c: [u32; 2]) -> Option<Obs> {
        let f = self.ctx.aborts.lock().unwrap().get(&(c[0], c[1])).cloned()?;
        f();
        Some(Obs { line: json!({"e":"abort","c":c}), new_ops: vec![], kinds: vec![] })
    }
    fn can_drop(&self) -> bool {
        true
    }
    fn abortable(&self) -> Vec<[u32; 2]> {
        let mut v: Vec<_> = self.ctx.aborts.lock().unwrap().keys().map(|k| [k.0, k.1]).collect();
        v.sort();
        v
    }
}

// ---------------------------------------------------------------------------------------------
// AppTester (crux_core::testing): the host every app developer's unit tests rely on.  `update` and
// `resolve` run the executor once and hand back effects AND events; the events are not applied.  The
// driver keeps the returned events and feeds them back through `update` on its "noop" steps (mostly
// oldest first, sometimes newest first: the test decides the order).

pub struct TesterHost {
    ctx: Arc<CaseCtx>,
    tester: crux_core::testing::AppTester<VApp>,
    model: crate::app::Model,
    held: HashMap<[u32; 3], Request<VOp>>,
    seen: usize,
    pending: std::collections::VecDeque<Event>,
    feeds: u32,
}

impl TesterHost {
    pub fn new(ctx: Arc<CaseCtx>) -> Self {
        TesterHost {
            ctx,
            tester: crux_core::testing::AppTester::default(),
            model: crate::app::Model::default(),
            held: HashMap::new(),
            seen: 0,
            pending: Default::default(),
            feeds: 0,
        }
    }
    fn obs(&mut self, mut line: Value, upd: crux_core::testing::Update<Effect, Event>) -> Obs {
        let ops = crate::app::live_ops() - self.ctx.ops_base;
        let mut new_ops = vec![];
        let mut ej = vec![];
        let crux_core::testing::Update { effects, events } = upd;
        for e in effects {
            let Effect::Op(req) = e;
            ej.push(eff_json(&req.operation));
            new_ops.push(req.operation.clone());
            self.held.insert(req.operation.o, req);
        }
        let evj: Vec<Value> = events.iter().map(ev_json).collect();
        self.pending.extend(events);
        let delta: Vec<Value> = self.model.log[self.seen..].iter().map(ev_json).collect();
        self.seen = self.model.log.len();
        let m = line.as_object_mut().unwrap();
        m.insert("ops".into(), json!(ops));
        m.insert("effs".into(), Value::Array(ej));
        m.insert("evs".into(), Value::Array(evj));
        m.insert("log".into(), Value::Array(delta));
        m.insert("alive".into(), json!(crate::dsl::alive()));
        m.insert("maxin".into(), json!(self.ctx.max_in_update.load(Ordering::SeqCst)));
        Obs { line, new_ops, kinds: vec![] }
    }
}

impl Host for TesterHost {
    fn feed(&mut self, o: [u32; 3]) -> Option<Obs> {
        let k = self.pending.iter().position(|e| matches!(e, Event::Em { o: x, .. } if *x == o))?;
        let ev = self.pending.remove(k)?;
        let evj = ev_json(&ev);
        let upd = self.tester.update(ev, &mut self.model);
        Some(self.obs(json!({"e":"event","ev":evj}), upd))
    }
    fn run(&mut self, p: u32) -> Obs {
        let upd = self.tester.update(Event::Run(p), &mut self.model);
        self.obs(json!({"e":"event","ev":{"kind":"run","p":p}}), upd)
    }
    fn noop(&mut self) -> Option<Obs> {
        self.feeds += 1;
        let ev = if self.feeds % 3 == 0 { self.pending.pop_back() } else { self.pending.pop_front() };
        let ev = ev.unwrap_or(Event::Noop);
        let evj = ev_json(&ev);
        let upd = self.tester.update(ev, &mut self.model);
        Some(self.obs(json!({"e":"event","ev":evj}), upd))
    }
    fn resolve(&mut self, o: [u32; 3], val: u32) -> Option<Obs> {
        let req = self.held.get_mut(&o)?;
        let r = self.tester.resolve(req, val);
        let res = match &r {
            Ok(_) => "ok",
            Err(e) => match e.downcast_ref::<crux_core::ResolveError>() {
                Some(crux_core::ResolveError::Never) => "never",
                Some(crux_core::ResolveError::FinishedMany) => "finished",
                None => "other",
            },
        };
        let upd = r.unwrap_or(crux_core::testing::Update { effects: vec![], events: vec![] });
        Some(self.obs(json!({"e":"resolve","o":o,"val":val,"res":res}), upd))
    }
    fn drop_req(&mut self, o: [u32; 3]) -> Option<Obs> {
        let req = self.held.remove(&o)?;
        drop(req);
        Some(Obs { line: json!({"e":"drop","o":o}), new_ops: vec![], kinds: vec![] })
    }
    fn abort(&mut self, c: [u32; 2]) -> Option<Obs> {
        let f = self.ctx.aborts.lock().unwrap().get(&(c[0], c[1])).cloned()?;
        f();
        Some(Obs { line: json!({"e":"abort","c":c}), new_ops: vec![], kinds: vec![] })
    }
    fn can_drop(&self) -> bool {
        true
    }
    fn abortable(&self) -> Vec<[u32; 2]> {
        let mut v: Vec<_> = self.ctx.aborts.lock().unwrap().keys().map(|k| [k.0, k.1]).collect();
        v.sort();
        v
    }
}

// ---------------------------------------------------------------------------------------------
// Bridge (bincode) and BridgeWithSerializer (JSON)

enum AnyBridge {
    Bin(Bridge<VApp>),
    Json(BridgeWithSerializer<VApp>),
}

pub struct BridgeHost {
    ctx: Arc<CaseCtx>,
    bridge: AnyBridge,
    ids: HashMap<[u32; 3], u32>,
    seen: usize,
}

fn bincode_opts() -> impl bincode::Options + Copy {
    use bincode::Options;
    bincode::DefaultOptions::new().with_fixint_encoding().allow_trailing_bytes()
}

impl BridgeHost {
    pub fn new(ctx: Arc<CaseCtx>, json: bool) -> Self {
        let core = Core::<VApp>::new();
        let bridge =
            if json { AnyBridge::Json(BridgeWithSerializer::new(core)) } else { AnyBridge::Bin(Bridge::new(core)) };
        BridgeHost { ctx, bridge, ids: HashMap::new(), seen: 0 }
    }

    fn enc<T: Serialize>(&self, v: &T) -> Vec<u8> {
        use bincode::Options;
        match self.bridge {
            AnyBridge::Bin(_) => bincode_opts().serialize(v).unwrap(),
            AnyBridge::Json(_) => serde_json::to_vec(v).unwrap(),
        }
    }

    fn call(&self, id: Option<u32>, data: &[u8]) -> Result<Vec<u8>, String> {
        match &self.bridge {
            AnyBridge::Bin(b) => match id {
                None => b.process_event(data),
                Some(id) => b.handle_response(id, data),
            }
            .map_err(|e| err_kind(&e)),
            AnyBridge::Json(b) => {
                let mut out = vec![];
                let mut de = serde_json::Deserializer::from_slice(data);
                let mut ser = serde_json::Serializer::new(&mut out);
                match id {
                    None => b.process_event(&mut de, &mut ser),
                    Some(id) => b.handle_response(id, &mut de, &mut ser),
                }
                .map_err(|e| err_kind(&e))?;
                Ok(out)
            }
        }
    }

    fn view(&self) -> ViewModel {
        use bincode::Options;
        match &self.bridge {
            AnyBridge::Bin(b) => bincode_opts().deserialize(&b.view().unwrap()).unwrap(),
            AnyBridge::Json(b) => {
                let mut out = vec![];
                b.view(&mut serde_json::Serializer::new(&mut out)).unwrap();
                serde_json::from_slice(&out).unwrap()
            }
        }
    }

    fn obs(&mut self, mut line: Value, result: Result<Vec<u8>, String>) -> Obs {
        use bincode::Options;
        let mut new_ops = vec![];
        let mut ej = vec![];
        let res = match &result {
            Ok(_) => "ok".to_string(),
            Err(e) => e.clone(),
        };
        if let Ok(bytes) = result {
            let reqs: Vec<crux_core::bridge::Request<EffectFfi>> = match self.bridge {
                AnyBridge::Bin(_) => bincode_opts().deserialize(&bytes).unwrap(),
                AnyBridge::Json(_) => serde_json::from_slice(&bytes).unwrap(),
            };
            for r in reqs {
                let EffectFfi::Op(op) = r.effect;
                let mut j = eff_json(&op);
                j.as_object_mut().unwrap().insert("id".into(), json!(r.id.0));
                ej.push(j);
                self.ids.insert(op.o, r.id.0);
                new_ops.push(op);
            }
        }
        let view = self.view();
        let delta: Vec<Value> = view.log[self.seen..].iter().map(ev_json).collect();
        self.seen = view.log.len();
        let (reg, xt) = match &self.bridge {
            AnyBridge::Bin(b) => (b.verif_registry(), b.verif_executor_tasks()),
            AnyBridge::Json(b) => (b.verif_registry(), b.verif_executor_tasks()),
        };
        let kinds: Vec<&'static str> = new_ops
            .iter()
            .map(|op| {
                let id = self.ids[&op.o];
                reg.iter().find(|(i, _)| *i == id).map(|(_, k)| *k).unwrap_or("never")
            })
            .collect();
        let m = line.as_object_mut().unwrap();
        m.insert("res".into(), json!(res));
        m.insert("effs".into(), Value::Array(ej));
        m.insert("log".into(), Value::Array(delta));
        m.insert("xt".into(), json!(xt));
        m.insert("alive".into(), json!(crate::dsl::alive()));
        m.insert(
            "reg".into(),
            Value::Array(reg.iter().map(|(i, k)| json!({"id":i,"kind":k})).collect()),
        );
        m.insert("maxin".into(), json!(self.ctx.max_in_update.load(Ordering::SeqCst)));
        Obs { line, new_ops, kinds }
    }
}

fn err_kind(e: &crux_core::bridge::BridgeError) -> String {
    use crux_core::bridge::BridgeError as B;
    match e {
        B::DeserializeEvent(_) => "deserialize_event".into(),
        B::DeserializeOutput(_) => "deserialize_output".into(),
        B::ProcessResponse(crux_core::ResolveError::Never) => "never".into(),
        B::ProcessResponse(crux_core::ResolveError::FinishedMany) => "finished".into(),
        B::SerializeRequests(_) => "serialize_requests".into(),
        B::SerializeView(_) => "serialize_view".into(),
    }
}

impl Host for BridgeHost {
    fn run(&mut self, p: u32) -> Obs {
        let r = self.call(None, &self.enc(&Event::Run(p)));
        self.obs(json!({"e":"event","ev":{"kind":"run","p":p}}), r)
    }
    fn noop(&mut self) -> Option<Obs> {
        let r = self.call(None, &self.enc(&Event::Noop));
        Some(self.obs(json!({"e":"event","ev":{"kind":"noop"}}), r))
    }
    fn resolve(&mut self, o: [u32; 3], val: u32) -> Option<Obs> {
        let id = *self.ids.get(&o)?;
        let r = self.call(Some(id), &self.enc(&val));
        Some(self.obs(json!({"e":"resolve","o":o,"val":val,"id":id}), r))
    }
    fn big(&mut self, n: u32) -> Option<Obs> {
        let r = self.call(None, &self.enc(&Event::Data(vec![7; n as usize])));
        Some(self.obs(json!({"e":"event","ev":{"kind":"data","n":n}}), r))
    }
    fn note_answerable(&self, o: [u32; 3]) -> bool {
        let Some(id) = self.ids.get(&o) else { return false };
        let reg = match &self.bridge {
            AnyBridge::Bin(b) => b.verif_registry(),
            AnyBridge::Json(b) => b.verif_registry(),
        };
        reg.iter().any(|(i, _)| i == id)
    }
    fn abort(&mut self, c: [u32; 2]) -> Option<Obs> {
        let f = self.ctx.aborts.lock().unwrap().get(&(c[0], c[1])).cloned()?;
        f();
        Some(Obs { line: json!({"e":"abort","c":c}), new_ops: vec![], kinds: vec![] })
    }
    fn raw_event(&mut self, bytes: &[u8]) -> Option<Obs> {
        use bincode::Options;
        let ev: Event = match &self.bridge {
            AnyBridge::Bin(_) => bincode_opts().deserialize(bytes).ok()?,
            AnyBridge::Json(_) => {
                let mut de = serde_json::Deserializer::from_slice(bytes);
                <Event as Deserialize>::deserialize(&mut de).ok()?
            }
        };
        // (what the app would do with a program number it does not have is not in the model)
        match &ev {
            Event::Run(p) if (*p as usize) >= self.ctx.table.progs.len() => return None,
            Event::Em { .. } => return None,
            _ => {}
        }
        let r = self.call(None, bytes);
        Some(self.obs(json!({"e":"event","ev":ev_json(&ev),"raw":bytes.len()}), r))
    }
    fn raw_response(&mut self, o: [u32; 3], bytes: &[u8]) -> Option<Obs> {
        use bincode::Options;
        let id = *self.ids.get(&o)?;
        let val: u32 = match &self.bridge {
            AnyBridge::Bin(_) => bincode_opts().deserialize(bytes).ok()?,
            AnyBridge::Json(_) => {
                let mut de = serde_json::Deserializer::from_slice(bytes);
                <u32 as Deserialize>::deserialize(&mut de).ok()?
            }
        };
        // (the model computes with 32-bit integers -- values whose doubles and successors fit -- and keeps 0
        // for "no value yet")
        if val == 0 || val > 1_000_000 {
            return None;
        }
        let r = self.call(Some(id), bytes);
        Some(self.obs(json!({"e":"resolve","o":o,"val":val,"id":id,"raw":bytes.len()}), r))
    }
    fn bad_event(&mut self, bytes: &[u8]) -> Option<Obs> {
        crate::alloc::reset_peak();
        let t0 = std::time::Instant::now();
        let r = self.call(None, bytes);
        let (us, peak) = (t0.elapsed().as_micros() as u64, crate::alloc::peak());
        Some(self.obs(json!({"e":"bad_event","n":bytes.len(),"us":us,"peak":peak}), r))
    }
    fn bad_response(&mut self, o: [u32; 3], bytes: &[u8]) -> Option<Obs> {
        let id = *self.ids.get(&o)?;
        crate::alloc::reset_peak();
        let t0 = std::time::Instant::now();
        let r = self.call(Some(id), bytes);
        let (us, peak) = (t0.elapsed().as_micros() as u64, crate::alloc::peak());
        Some(self.obs(json!({"e":"bad_response","o":o,"id":id,"n":bytes.len(),"us":us,"peak":peak}), r))
    }
    fn abortable(&self) -> Vec<[u32; 2]> {
        let mut v: Vec<_> = self.ctx.aborts.lock().unwrap().keys().map(|k| [k.0, k.1]).collect();
        v.sort();
        v
    }
    fn seeds(&self) -> Option<(Vec<Vec<u8>>, Vec<u8>)> {
        Some((
            vec![
                self.enc(&Event::Run(0)),
                self.enc(&Event::Noop),
                self.enc(&Event::Em { o: [1, 2, 3], tag: 4, val: 5 }),
                self.enc(&Event::Data(vec![7; 9])),
                self.enc(&Event::Text("héllo".into())),
            ],
            self.enc(&7u32),
        ))
    }
    fn decodes(&self, bytes: &[u8], as_event: bool) -> bool {
        use bincode::Options;
        match (&self.bridge, as_event) {
            (AnyBridge::Bin(_), true) => bincode_opts().deserialize::<Event>(bytes).is_ok(),
            (AnyBridge::Bin(_), false) => bincode_opts().deserialize::<u32>(bytes).is_ok(),
            // the JSON bridge reads one value from a streaming deserializer (no end-of-input check)
            (AnyBridge::Json(_), true) => {
                let mut de = serde_json::Deserializer::from_slice(bytes);
                <Event as Deserialize>::deserialize(&mut de).is_ok()
            }
            (AnyBridge::Json(_), false) => {
                let mut de = serde_json::Deserializer::from_slice(bytes);
                <u32 as Deserialize>::deserialize(&mut de).is_ok()
            }
        }
    }
}

/// Malformed variants of a valid encoding: random bytes, truncation, extension, bit flips,
/// corrupted length / tag fields.
pub fn mutate(rng: &mut StdRng, seed: &[u8]) -> Vec<u8> {
    let mut b = seed.to_vec();
    match rng.random_range(0..10) {
        8 => {
            // a long string of multi-byte characters where something else is expected: as a JSON string in
            // place of the whole input (an unknown variant / a wrong type, quoted back in the error), or as the
            // bytes of a length-prefixed string (bincode) -- error paths that copy or cut input text
            let chars = ["\u{20ac}", "\u{e9}", "\u{65e5}\u{672c}", "\u{1f980}", "a\u{20ac}"];
            let unit = chars[rng.random_range(0..chars.len())];
            let n = rng.random_range(40..400);
            let text: String = std::iter::repeat(unit).take(n).collect();
            if rng.random::<bool>() {
                format!("\"{text}\"").into_bytes()
            } else {
                let mut v = (text.len() as u64).to_le_bytes().to_vec();
                v.extend_from_slice(text.as_bytes());
                // keep whatever came first in the seed (a variant tag), then the string
                let keep = rng.random_range(0..=b.len().min(8));
                let mut out = b[..keep].to_vec();
                out.extend(v);
                out
            }
        }
        9 => {
            // a JSON object / variant with such a string as its key, or as the value of the first field
            let unit = ["\u{20ac}", "\u{e9}x", "\u{1f980}"][rng.random_range(0..3)];
            let text: String = std::iter::repeat(unit).take(rng.random_range(60..300)).collect();
            match rng.random_range(0..3) {
                0 => format!("{{\"{text}\":1}}").into_bytes(),
                1 => format!("{{\"Run\":\"{text}\"}}").into_bytes(),
                _ => format!("[\"{text}\"]").into_bytes(),
            }
        }
        0 => (0..rng.random_range(0..40)).map(|_| rng.random()).collect(),
        1 => {
            let n = if b.is_empty() { 0 } else { rng.random_range(0..b.len()) };
            b.truncate(n);
            b
        }
        2 => {
            for _ in 0..rng.random_range(1..4) {
                if !b.is_empty() {
                    let i = rng.random_range(0..b.len());
                    b[i] ^= 1 << rng.random_range(0..8);
                }
            }
            b
        }
        3 => {
            // length / tag field corruption: overwrite an aligned 4/8-byte word with a huge value
            if b.len() >= 8 {
                let i = rng.random_range(0..=(b.len() - 8) / 4) * 4;
                let v: u64 = [u64::MAX, 1 << 40, 1 << 31, 0xffff_ffff][rng.random_range(0..4)];
                b[i..i + 8].copy_from_slice(&v.to_le_bytes());
            } else {
                b = vec![0xff; 12];
            }
            b
        }
        4 => vec![],
        5 => {
            // textual damage (matters for JSON)
            let junk: &[&[u8]] = &[b"{", b"[[[[[[[[", b"\"", b"null", b"-1", b"1e999", b"{\"Run\":", b"\xff\xfe"];
            let j = junk[rng.random_range(0..junk.len())];
            let at = if b.is_empty() { 0 } else { rng.random_range(0..b.len()) };
            b.splice(at..at, j.iter().copied());
            b
        }
        6 => {
            let deep = rng.random_range(100..3000);
            std::iter::repeat(b'[').take(deep).collect()
        }
        _ => {
            b.reverse();
            b
        }
    }
}

// ---------------------------------------------------------------------------------------------

pub fn make_host(name: &str, ctx: Arc<CaseCtx>) -> Box<dyn Host> {
    match name {
        "direct" => Box::new(Direct::new(ctx)),
        "stream" => Box::new(StreamHost::new(ctx)),
        "core" => Box::new(CoreHost::new(ctx)),
        "tester" => Box::new(TesterHost::new(ctx)),
        "bridge_bin" => Box::new(BridgeHost::new(ctx, false)),
        "bridge_json" => Box::new(BridgeHost::new(ctx, true)),
        other => panic!("unknown host {other}"),
    }
}

/// Request bookkeeping on the driver's side (what a shell would know).
#[derive(Default)]
struct Known {
    ops: Vec<([u32; 3], u32)>, // request stamp, number of resolutions sent
    notes: Vec<[u32; 3]>,      // bridge: notifications handed over (no answer expected)
    kinds: HashMap<[u32; 3], &'static str>,
}

/// Run one case; returns the trace lines (the first is the `case` header, the last is `end`).
pub fn run_case(case: &Case) -> Vec<Value> {
    let ctx = install_case(case.table.clone());
    let mut lines = vec![json!({"e":"case","name":case.name,"host":case.host,
        "progs":case.table.progs,"follow":case.table.follow,"legacy":case.table.legacy})];
    let mut host = make_host(&case.host, ctx);
    let mut known = Known::default();
    let mut executed: Vec<StepIn> = vec![];

    let journal = std::env::var("VERIF_JOURNAL").ok();
    let mut do_step = |host: &mut Box<dyn Host>, known: &mut Known, step: &StepIn| -> Option<Value> {
        // a step that aborts the process (allocation failure, stack overflow) leaves its name behind
        if let Some(j) = &journal {
            let _ = std::fs::write(j, json!({"case": case, "about_to": step}).to_string());
        }
        let r = catch_unwind(AssertUnwindSafe(|| match step {
            StepIn::Run { p } => Some(host.run(*p)),
            StepIn::Noop => host.noop(),
            StepIn::Big { n } => host.big(*n),
            StepIn::Feed { o } => host.feed(*o),
            StepIn::Resolve { o, val, nt } => {
                if *nt {
                    host.set_notake(true);
                }
                host.resolve(*o, *val)
            }
            StepIn::Drop { o, nt } => {
                if *nt {
                    host.set_notake(true);
                }
                host.drop_req(*o)
            }
            StepIn::Abort { c, nt } => {
                if *nt {
                    host.set_notake(true);
                }
                host.abort(*c)
            }
            StepIn::BadEvent { bytes } => host.bad_event(bytes),
            StepIn::RawEvent { bytes } => host.raw_event(bytes),
            StepIn::RawResponse { o, bytes } => host.raw_response(*o, bytes),
            StepIn::BadResponse { o, bytes } => host.bad_response(*o, bytes),
        }));
        match r {
            Ok(Some(obs)) => {
                for (i, op) in obs.new_ops.iter().enumerate() {
                    match obs.kinds.get(i) {
                        Some(&"never") => known.notes.push(op.o), // bridge: a notification has no outstanding id
                        Some(k) => {
                            known.kinds.insert(op.o, k);
                            known.ops.push((op.o, 0));
                        }
                        None => known.ops.push((op.o, 0)),
                    }
                }
                match step {
                    StepIn::Resolve { o, .. } | StepIn::BadResponse { o, .. } | StepIn::RawResponse { o, .. }
                        if known.kinds.get(o) == Some(&"once") =>
                    {
                        // the bridge forgets a one-shot request once it has been answered
                        known.ops.retain(|k| k.0 != *o);
                    }
                    StepIn::Resolve { o, .. } | StepIn::RawResponse { o, .. } => {
                        if let Some(k) = known.ops.iter_mut().find(|k| k.0 == *o) {
                            k.1 += 1;
                        }
                    }
                    StepIn::Drop { o, .. } => known.ops.retain(|k| k.0 != *o),
                    _ => {}
                }
                if let StepIn::Resolve { o, .. } = step {
                    known.notes.retain(|k| k != o);
                }
                Some(obs.line)
            }
            Ok(None) => None,
            Err(p) => {
                let msg = p
                    .downcast_ref::<String>()
                    .cloned()
                    .or_else(|| p.downcast_ref::<&str>().map(|s| s.to_string()))
                    .unwrap_or_default();
                Some(json!({"e":"panic","step":step,"msg":msg}))
            }
        }
    };

    let mut dead = false;
    for step in &case.steps {
        if dead {
            break;
        }
        host.set_notake(false);
        if let Some(l) = do_step(&mut host, &mut known, step) {
            dead = l["e"] == "panic";
            lines.push(l);
            executed.push(step.clone());
        }
    }
    if let Some(pol) = &case.policy {
        let mut rng = StdRng::seed_from_u64(pol.seed);
        let mut n = 0;
        while n < pol.max && !dead {
            n += 1;
            let x: f64 = rng.random();
            host.set_notake(pol.p_batch > 0.0 && n < pol.max && rng.random::<f64>() < pol.p_batch);
            if rng.random::<f64>() < pol.p_bad {
                if let Some((evs, resp)) = host.seeds() {
                    let as_event = known.ops.is_empty() || rng.random::<bool>();
                    let seed = if as_event { evs[rng.random_range(0..evs.len())].clone() } else { resp };
                    let bytes = mutate(&mut rng, &seed);
                    if !host.decodes(&bytes, as_event) {
                        let step = if as_event {
                            StepIn::BadEvent { bytes }
                        } else {
                            let (o, _) = known.ops[rng.random_range(0..known.ops.len())];
                            StepIn::BadResponse { o, bytes }
                        };
                        if let Some(l) = do_step(&mut host, &mut known, &step) {
                            dead = l["e"] == "panic";
                            lines.push(l);
                            executed.push(step);
                        }
                        continue;
                    }
                    // the damage left a valid encoding (trailing bytes, another value): the bridge has to take it
                    // for what it decodes to
                    let step = if as_event {
                        StepIn::RawEvent { bytes }
                    } else {
                        let (o, _) = known.ops[rng.random_range(0..known.ops.len())];
                        StepIn::RawResponse { o, bytes }
                    };
                    if let Some(l) = do_step(&mut host, &mut known, &step) {
                        dead = l["e"] == "panic";
                        lines.push(l);
                        executed.push(step);
                        continue;
                    }
                }
            }
            let bridge = case.host.starts_with("bridge");
            if bridge && !known.notes.is_empty() && rng.random::<f64>() < 0.1 {
                // a shell that answers a notification: as long as the bridge still knows the id, the answer has
                // to be rejected (and must not reach anybody else)
                let o = known.notes[rng.random_range(0..known.notes.len())];
                if host.note_answerable(o) {
                    let step = StepIn::Resolve { o, val: 99, nt: false };
                    if let Some(l) = do_step(&mut host, &mut known, &step) {
                        dead = l["e"] == "panic";
                        lines.push(l);
                        executed.push(step);
                    }
                    continue;
                }
                known.notes.retain(|k| *k != o);
            }
            let crowded = pol.max_out > 0 && known.ops.len() > pol.max_out as usize;
            let step = if crowded && host.can_drop() && rng.random::<bool>() {
                StepIn::Drop { o: known.ops[0].0, nt: false }
            } else if !crowded && x < pol.p_run && !case.table.progs.is_empty() && case.host != "direct" && case.host != "stream" {
                StepIn::Run { p: rng.random_range(0..case.table.progs.len() as u32) }
            } else if x < pol.p_run + pol.p_noop {
                if bridge && rng.random::<f64>() < 0.15 {
                    // payloads beyond any "reasonable" size are still valid input.  (Not in long histories: the app
                    // keeps every event in its model and the view is read after every call -- a few megabytes per
                    // call for hundreds of calls.)
                    let n = [70_000, 300_000, 1_100_000][rng.random_range(0..3)];
                    if pol.max >= 100 {
                        StepIn::Noop
                    } else {
                        StepIn::Big { n }
                    }
                } else {
                    StepIn::Noop
                }
            } else if x < pol.p_run + pol.p_noop + pol.p_abort && !host.abortable().is_empty() {
                let a = host.abortable();
                StepIn::Abort { c: a[rng.random_range(0..a.len())], nt: false }
            } else if known.ops.is_empty() {
                break;
            } else {
                // prefer requests not yet resolved; with p_late pick any (repeated / late resolution)
                let fresh: Vec<usize> =
                    (0..known.ops.len()).filter(|i| known.ops[*i].1 == 0).collect();
                let i = if !fresh.is_empty() && rng.random::<f64>() >= pol.p_late {
                    fresh[rng.random_range(0..fresh.len())]
                } else {
                    rng.random_range(0..known.ops.len())
                };
                let (o, k) = known.ops[i];
                if host.can_drop() && rng.random::<f64>() < pol.p_drop {
                    StepIn::Drop { o, nt: false }
                } else {
                    StepIn::Resolve { o, val: k + 1, nt: false }
                }
            };
            if let Some(l) = do_step(&mut host, &mut known, &step) {
                dead = l["e"] == "panic";
                lines.push(l);
                executed.push(step);
            }
        }
    }
    let dropped = catch_unwind(AssertUnwindSafe(move || drop(host)));
    lines.push(json!({"e":"end","steps":executed,"drop_ok":dropped.is_ok()}));
    lines
}
