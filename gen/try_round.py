#!/usr/bin/env python3
"""scratch driver: one random round for chosen hosts (usage: try_round.py name seed n hosts family depth steps)"""
import sys, os, time
sys.path.insert(0, os.path.dirname(__file__))
import lib, props
name, seed, n, hosts, family, depth, steps = sys.argv[1], int(sys.argv[2]), int(sys.argv[3]), sys.argv[4].split(","), sys.argv[5], int(sys.argv[6]), int(sys.argv[7])
lib.build_harness()
run = lib.Run("TRY", "quick", seed)
t = time.time()
props.random_round(run, name, seed, n, hosts, family, depth, steps, bad=float(os.environ.get("TRY_BAD","0")))
print("violations", run.violations, "traces", run.traces, "fifo_mismatch", run.fifo_mismatch, "inconclusive", run.inconclusive, round(time.time() - t, 1), "s")
for s in run.stages: print(s)
