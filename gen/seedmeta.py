#!/usr/bin/env python3
"""writes seeded/<id>/meta.json from the run record seedcheck2.sh left there
usage: seedmeta.py <seed-dir-name> <title> <needs> <ran> [PROP=how detected ...]"""
import json, os, sys
d = os.path.join(os.path.dirname(os.path.dirname(os.path.abspath(__file__))), "seeded", sys.argv[1])
run = json.load(open(os.path.join(d, "run.json")))
meta = {"property": sys.argv[1][:3], "title": sys.argv[2], "needs": sys.argv[3], "confirmed": run, "ran": sys.argv[4],
        "detected_by": dict(a.split("=", 1) for a in sys.argv[5:])}
json.dump(meta, open(os.path.join(d, "meta.json"), "w"), indent=1)
print(d)
