#!/bin/bash
# usage (from a snapshot of /verif, e.g.  vp run --with-repo -- bash gen/seedbatch.sh ...):
#   seedbatch.sh ID:crate:PROP[,PROP..] ...
# for every seed: the scratch worktree /tmp/wt-<ID> (patch.diff, <crate>/tests/seeded_demo.rs, NOTES.md, and a file
# NAME with a line "name: <directory name under seeded/>") is confirmed and checked by gen/seedcheck2.sh against
# the repository snapshot in $VP_RUN_REPO
export VERIF_REPO=${VP_RUN_REPO:?run under vp run --with-repo}
./check setup >/dev/null 2>&1
for spec in "$@"; do
  IFS=: read id crate props <<<"$spec"
  full=$(grep -m1 "^name:" /tmp/wt-$id/NAME 2>/dev/null | cut -d' ' -f2)
  [ -z "$full" ] && full=$id
  echo "=== $full $(date +%T)"
  bash gen/seedcheck2.sh /tmp/wt-$id $full $crate ${props//,/ }
done
