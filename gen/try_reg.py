#!/usr/bin/env python3
import sys, os, time
sys.path.insert(0, os.path.dirname(__file__))
import lib, props
run = lib.Run("TRYR", "quick", 1)
lib.build_harness()
t=time.time()
props.registry_stress(run, int(sys.argv[1]), int(sys.argv[2]), 7)
print("violations", run.violations, round(time.time()-t,1))
for s in run.stages: print(s)
