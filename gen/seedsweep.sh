#!/bin/bash
# seedsweep.sh [seed-dir-names...]: apply every seeded change in turn to the repository the checks use
# (VERIF_REPO, default /repo), run the check of the seed's own property, undo, and print one row per seed.
# A seed counts as detected when the check exits 1 with a VIOLATION line.
REPO=${VERIF_REPO:-/repo}
cd "$(dirname "$0")/.."
SEEDS=${@:-$(ls seeded)}
for s in $SEEDS; do
  d=seeded/$s
  [ -f $d/patch.diff ] || continue
  prop=$(python3 -c "import json;print(json.load(open('$d/meta.json'))['property'])")
  git -C $REPO apply $PWD/$d/patch.diff || { echo "$s $prop PATCH-DOES-NOT-APPLY"; continue; }
  ./check $prop > .work/sweep_$s.log 2>&1; rc=$?
  v=$(grep -c "^VIOLATION property=$prop" .work/sweep_$s.log)
  git -C $REPO checkout -- .
  echo "$s $prop exit=$rc violations=$v $( [ $rc = 1 ] && [ $v -gt 0 ] && echo DETECTED || echo MISSED )"
done
