#!/usr/bin/env python3
"""tracecase.py <trace.ndjson> <line> [out] : print (or write) the case that contains trace line <line> (1-based)."""
import json, sys
lines = open(sys.argv[1]).read().splitlines()
n = int(sys.argv[2])
start = max(i for i in range(n) if json.loads(lines[i]).get("e") == "case")
end = next(i for i in range(start, len(lines)) if json.loads(lines[i]).get("e") == "end")
out = lines[start:end + 1]
if len(sys.argv) > 3:
    open(sys.argv[3], "w").write("\n".join(out) + "\n")
else:
    for i, l in enumerate(out):
        print(start + i + 1, ("<<< " if start + i + 1 == n else "") + l[:1500])
