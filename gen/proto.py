#!/usr/bin/env python3
"""proto.py <raw trace> <out cases>: groups the recorder's events by Command instance.

Each instance becomes one case that starts with its `new` event; slab keys stay as recorded.  Instances
whose events come from more than one thread are left out (the recorder takes no lock that would order
them) and counted.  Prints a JSON summary."""
import collections
import json
import sys


MAX_EVENTS = 1500


def main(raw, out):
    inst = {}          # address -> current instance index
    cases = []         # list of [events]
    threads = []       # set of threads per instance
    orphans = 0
    gens, waker = {}, {}
    for l in open(raw):
        try:
            d = json.loads(l)
        except ValueError:
            continue   # a line cut short by a process exit
        c = d["c"]
        if d["e"] == "new":
            inst[c] = len(cases)
            cases.append([])
            threads.append(set())
        if c not in inst:
            orphans += 1
            continue
        i = inst[c]
        b = d["b"]
        if d["e"] == "poll":
            # wakers are told apart by their address; a poll's waker gets the next small number
            gens[c] = gens.get(c, 0) + 1
            waker[(c, b)] = gens[c]
            b = gens[c]
        elif d["e"] == "wake":
            b = waker.get((c, b), 0)
        cases[i].append({"e": d["e"], "a": d["a"], "b": b, "d": d["d"]})
        threads[i].add(d["th"])
    kept = multi = big = 0
    kinds = collections.Counter()
    with open(out, "w") as f:
        for ev, th in zip(cases, threads):
            if len(th) > 1:
                multi += 1
                continue
            if len(ev) > MAX_EVENTS:
                big += 1      # (thousands of tasks in one command: every validator step would cost O(tasks))
                continue
            kept += 1
            for e in ev:
                kinds[e["e"]] += 1
                f.write(json.dumps(e, separators=(",", ":")) + "\n")
    print(json.dumps({"instances": kept, "multi_thread_instances_left_out": multi, "orphan_events": orphans,
                      "instances_over_%d_events_left_out" % MAX_EVENTS: big,
                      "events": dict(kinds)}))


if __name__ == "__main__":
    main(sys.argv[1], sys.argv[2])
