#!/usr/bin/env python3
import sys, os, time
sys.path.insert(0, os.path.dirname(__file__))
import lib, props
lib.build_harness()
run = lib.Run("TRY", "quick", 1)
t = time.time()
n = props.mc_core_and_replay(run, int(sys.argv[2]), [sys.argv[1]], cap=int(sys.argv[3]), mode=sys.argv[1] if sys.argv[1] == "tester" else "core")
print("schedules", n, "violations", run.violations, "traces", run.traces, round(time.time() - t, 1), "s")
for s in run.stages: print({k: v for k, v in s.items() if k != "coverage"})
