#!/usr/bin/env python3
import sys, os, time
sys.path.insert(0, os.path.dirname(__file__))
import lib, props
run = lib.Run("TRYL", "quick", 1)
t = time.time()
props.loop_mc(run)
lib.record_suite(run)
props.loop_suite(run, selftest=True)
lib.build_harness()
props.loop_harness(run, 'x', 5, 400)
print("violations", run.violations, round(time.time() - t, 1), "s")
for s in run.stages: print({k: v for k, v in s.items() if k != "action_counts"})
