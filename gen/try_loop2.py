#!/usr/bin/env python3
import sys, os, time
sys.path.insert(0, os.path.dirname(__file__))
import lib, props
run = lib.Run("TRYL", "quick", 1)
lib.build_harness()
props.loop_harness(run, 'x', int(sys.argv[1]), int(sys.argv[2]))
print("violations", run.violations)
for s in run.stages: print({k: v for k, v in s.items() if k != "action_counts"})
