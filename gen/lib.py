"""Shared machinery of ./check: building the harness, running TLC (model checking and trace
validation), harvesting schedules, known findings, evidence files.  Stdlib only."""
import json
import os
import re
import shutil
import subprocess
import time

ROOT = os.path.dirname(os.path.dirname(os.path.abspath(__file__)))
WORK = os.path.join(ROOT, ".work")
SPEC = os.path.join(ROOT, "spec")
HARNESS = os.path.join(ROOT, "harness")
BIN = os.path.join(WORK, "target", "debug", "crux_verif_harness")
TOOLCHAIN = "stable-x86_64-unknown-linux-gnu"
NCPU = os.cpu_count() or 4


class ToolError(Exception):
    pass


def sh(cmd, env=None, timeout=None, cwd=None, check=False):
    e = dict(os.environ)
    if env:
        e.update(env)
    try:
        p = subprocess.run(cmd, env=e, cwd=cwd, timeout=timeout, stdout=subprocess.PIPE,
                           stderr=subprocess.STDOUT, text=True, errors="replace")
    except subprocess.TimeoutExpired as ex:
        out = ex.stdout or ""
        if isinstance(out, bytes):
            out = out.decode(errors="replace")
        return 124, out
    if check and p.returncode != 0:
        raise ToolError(f"command failed ({p.returncode}): {' '.join(cmd)}\n{p.stdout[-3000:]}")
    return p.returncode, p.stdout


def cargo_env():
    return {"RUSTUP_TOOLCHAIN": TOOLCHAIN, "CARGO_NET_OFFLINE": "true"}


REPO = os.environ.get("VERIF_REPO", "/repo")   # the tree under verification (a snapshot for background runs)


def build_harness():
    os.makedirs(WORK, exist_ok=True)
    # the manifest is generated so that a background run can point the path dependencies at a snapshot
    tmpl = open(os.path.join(HARNESS, "Cargo.toml.in")).read().replace("@REPO@", REPO)
    man = os.path.join(HARNESS, "Cargo.toml")
    if not os.path.exists(man) or open(man).read() != tmpl:
        with open(man, "w") as f:
            f.write(tmpl)
    lock = os.path.join(HARNESS, "Cargo.lock")
    if not os.path.exists(lock):
        shutil.copy(os.path.join(REPO, "Cargo.lock"), lock)
    rc, out = sh(["cargo", "build", "--offline"], env=cargo_env(), cwd=HARNESS, timeout=1800)
    if rc != 0:
        raise ToolError("harness build failed:\n" + out[-4000:])


def setup():
    try:
        build_harness()
    except ToolError as e:
        print(e)
        return 2
    # the repository's test binaries with the recorder compiled in (used by the protocol stages)
    env = cargo_env()
    env.update({"CARGO_TARGET_DIR": os.path.join(WORK, "target-proto"),
                "RUSTFLAGS": "--cfg crux_verif --check-cfg cfg(crux_verif)"})
    rc, out = sh(["cargo", "test", "--workspace", "--offline", "--lib", "--bins", "--tests", "--no-run"], env=env,
                 cwd=REPO, timeout=3000)
    if rc != 0:
        print("instrumented test build failed:\n" + out[-3000:])
        return 2
    # every spec must parse
    for f in sorted(os.listdir(SPEC)):
        if f.endswith(".tla") and not f.startswith("Ind_"):     # (Ind_*: Apalache modules, not on SANY's path)
            rc, out = sh(["tla-sany", f], cwd=SPEC, timeout=300)
            if "Semantic errors" in out or "Could not parse" in out or "***Parse Error***" in out:
                print(f"spec {f} does not parse:\n{out[-2000:]}")
                return 2
    print("setup ok")
    return 0


# ------------------------------------------------------------------------------------------------
# TLC


def tlc(spec, cfg_text, env, workers=1, timeout=900, dfs=False, coverage=False, tag="x"):
    """run TLC on spec (module name) with the given cfg text; returns (rc, stdout)"""
    d = os.path.join(WORK, "tlc")
    os.makedirs(d, exist_ok=True)
    cfg = os.path.join(d, f"{spec}_{tag}_{os.getpid()}.cfg")
    with open(cfg, "w") as f:
        f.write(cfg_text)
    meta = os.path.join(d, f"md_{tag}_{os.getpid()}")
    jopts = "-Xss1g"
    if dfs:
        jopts += " -Dtlc2.tool.queue.IStateQueue=StateDeque"
    e = dict(env)
    e["JAVA_TOOL_OPTIONS"] = jopts
    cmd = ["tlc", "-workers", str(workers), "-metadir", meta, "-cleanup", "-noGenerateSpecTE"]
    if coverage:
        cmd += ["-coverage", "1"]
    cmd += ["-config", cfg, os.path.join(SPEC, spec + ".tla")]
    rc, out = sh(cmd, env=e, timeout=timeout, cwd=SPEC)
    shutil.rmtree(meta, ignore_errors=True)
    try:
        os.remove(cfg)
    except OSError:
        pass
    return rc, out


def parse_counts(out):
    m = re.search(r"(\d+) states generated, (\d+) distinct states found", out)
    if not m:
        return 0, 0
    return int(m.group(1)), int(m.group(2))


def parse_coverage(out):
    cov = {}
    for m in re.finditer(r"^<(\w+) line \d+, col \d+ to line \d+, col \d+ of module (\w+)>: (\d+):(\d+)", out, re.M):
        cov[m.group(1)] = int(m.group(4))
    return cov


def mc(run, spec, cfg_text, env, workers=8, timeout=None, need_actions=(), label=None, coverage=True):
    """exhaustive model checking; an invariant violation of the *model* on the unchanged tree is a
    tool error (the model is wrong), never a verdict about the code"""
    t0 = time.time()
    if timeout is None:
        timeout = 1500 if run.quick else 3600     # (other jobs may share the machine)
    rc, out = tlc(spec, cfg_text, env, workers=workers, timeout=timeout, coverage=coverage, tag="mc")
    if rc == 124:
        raise ToolError(f"TLC timeout on {spec}")
    gen, dist = parse_counts(out)
    if "No error has been found" not in out:
        raise ToolError(f"model checking of {spec} failed:\n" + out[-3000:])
    cov = parse_coverage(out)
    for a in need_actions:
        if cov.get(a, 0) == 0:
            raise ToolError(f"vacuity: action {a} of {spec} was never taken")
    run.states += dist
    run.transitions += gen
    run.stages.append({"stage": label or spec, "kind": "tlc-exhaustive", "distinct_states": dist,
                       "states_generated": gen, "action_counts": cov, "wall_s": round(time.time() - t0, 1),
                       "env": {k: v for k, v in env.items() if k in ("MAXACT", "PROGS", "APPS", "PAIRS")}})
    return out


def harvest(out):
    """SCHED lines printed by the model checker -> list of dicts {p, steps}"""
    res = []
    seen = set()
    for m in re.finditer(r'<<\s*"SCHED",\s*"((?:[^"\\]|\\.)*)"\s*>>', out, re.S):
        s = m.group(1).replace('\\"', '"').replace("\\\\", "\\")
        if s in seen:
            continue
        seen.add(s)
        res.append(json.loads(s))
    return res


TRACE_CFG = """SPECIFICATION TSpec
CONSTANT Sched = "{sched}"
{kfs}CONSTRAINT Progress
POSTCONDITION Accepted
CHECK_DEADLOCK FALSE
"""


def validate_once(spec, trace_path, sched, kfs=None, timeout=1200):
    if kfs is None:
        kfs = [f["id"] for f in known_findings()["findings"]]
    kfline = "CONSTANT KFS = {" + ", ".join('"%s"' % k for k in sorted(kfs)) + "}\n"
    rc, out = tlc(spec, TRACE_CFG.format(sched=sched, kfs=kfline), {"TRACE": trace_path},
                  workers=1, timeout=timeout, dfs=True, tag="tv")
    res = {"accepted": False, "timeout": rc == 124, "rejected_at": None, "kfhits": [0, 0, 0], "out": out}
    m = re.search(r'<<"KFHITS", (\d+), (\d+), (\d+)>>', out)
    if m:
        res["kfhits"] = [int(m.group(1)), int(m.group(2)), int(m.group(3))]
    gen, dist = parse_counts(out)
    res["states"] = dist
    if "No error has been found" in out:
        res["accepted"] = True
        return res
    m = re.search(r'"REJECTED_AT",\s*(\d+)', out)
    if m:
        res["rejected_at"] = int(m.group(1))
        return res
    if rc == 124:
        return res
    raise ToolError(f"trace validation with {spec} broke:\n" + out[-3000:])


SIMPLE_CFG = """SPECIFICATION TSpec
{consts}CONSTRAINT Progress
POSTCONDITION Accepted
CHECK_DEADLOCK FALSE
"""


def validate_simple(run, spec, trace_path, consts="", marker='"e":"tcase"', label="", max_rejections=4, env=None):
    """validation of a trace made of cases that each start with a marker line, in chunks of whole cases"""
    lines = open(trace_path).read().splitlines()
    if len(lines) <= CHUNK_LINES:
        return _validate_simple(run, spec, trace_path, consts, marker, label, max_rejections, env)
    chunk, n = [], 0
    for l in lines + [None]:
        if (l is None or marker in l) and chunk and (l is None or len(chunk) >= CHUNK_LINES):
            p = f"{trace_path}.chunk{n}"
            with open(p, "w") as f:
                f.write("\n".join(chunk) + "\n")
            _validate_simple(run, spec, p, consts, marker, f"{label}#{n}", max_rejections, env)
            os.remove(p)
            chunk = []
            n += 1
        if l is not None:
            chunk.append(l)


def _validate_simple(run, spec, trace_path, consts="", marker='"e":"tcase"', label="", max_rejections=4, env=None):
    t0 = time.time()
    lines = open(trace_path).read().splitlines()
    ncases = sum(1 for l in lines if marker in l)
    remaining = lines
    rej = 0
    states = 0
    tmp = trace_path + ".part"
    while remaining:
        with open(tmp, "w") as f:
            f.write("\n".join(remaining) + "\n")
        e = {"TRACE": tmp}
        e.update(env or {})
        rc, out = tlc(spec, SIMPLE_CFG.format(consts=consts), e, workers=1, timeout=1200, dfs=True, tag="tv")
        gen, dist = parse_counts(out)
        states += dist
        if "No error has been found" in out:
            break
        m = re.search(r'"REJECTED_AT",\s*(\d+)', out)
        if not m:
            raise ToolError(f"trace validation with {spec} broke:\n" + out[-3000:])
        n = int(m.group(1))
        s = n - 1
        while s > 0 and marker not in remaining[s]:
            s -= 1
        e_ = n
        while e_ < len(remaining) and marker not in remaining[e_]:
            e_ += 1
        run.violation(spec, remaining[s:e_], n - s, label)
        rej += 1
        ncases -= 1
        if rej >= max_rejections:
            ncases -= sum(1 for l in remaining[e_:] if marker in l)
            break
        remaining = remaining[e_:]
    if os.path.exists(tmp):
        os.remove(tmp)
    run.traces += max(ncases, 0)
    run.stages.append({"stage": label or spec, "kind": "trace-validation", "spec": spec,
                       "cases_accepted": max(ncases, 0), "rejections": rej, "validator_states": states,
                       "wall_s": round(time.time() - t0, 1)})
    return rej == 0


def case_bounds(lines, n):
    """0-based [start, end] of the case containing 1-based line n"""
    start = n - 1
    while start > 0 and '"e":"case"' not in lines[start]:
        start -= 1
    end = n - 1
    while end < len(lines) - 1 and '"e":"end"' not in lines[end]:
        end += 1
    return start, end


CHUNK_LINES = 40000


def validate_trace(run, spec, trace_path, kfs=None, label="", max_rejections=4):
    """validates a trace file in chunks of whole cases (one TLC run per chunk keeps time and memory flat)"""
    lines = open(trace_path).read().splitlines()
    if len(lines) <= CHUNK_LINES:
        return _validate_trace(run, spec, trace_path, kfs, label, max_rejections)
    total = 0
    chunk = []
    n = 0
    for l in lines:
        chunk.append(l)
        if '"e":"end"' in l and len(chunk) >= CHUNK_LINES:
            p = f"{trace_path}.chunk{n}"
            with open(p, "w") as f:
                f.write("\n".join(chunk) + "\n")
            total += _validate_trace(run, spec, p, kfs, f"{label}#{n}", max_rejections)
            os.remove(p)
            chunk = []
            n += 1
    if chunk:
        p = f"{trace_path}.chunk{n}"
        with open(p, "w") as f:
            f.write("\n".join(chunk) + "\n")
        total += _validate_trace(run, spec, p, kfs, f"{label}#{n}", max_rejections)
        os.remove(p)
    return total


def _validate_trace(run, spec, trace_path, kfs=None, label="", max_rejections=4):
    """two-pass validation (fifo refinement first, any-order model for a rejected case);
    returns number of cases accepted"""
    t0 = time.time()
    lines = open(trace_path).read().splitlines()
    ncases = sum(1 for l in lines if '"e":"case"' in l)
    remaining = lines
    rejections = 0
    states = 0
    kfh = [0, 0, 0]
    tmp = trace_path + ".part"
    while remaining:
        with open(tmp, "w") as f:
            f.write("\n".join(remaining) + "\n")
        r = validate_once(spec, tmp, "fifo", kfs)
        states += r["states"]
        kfh = [a + b for a, b in zip(kfh, r["kfhits"])]
        if r["accepted"]:
            break
        if r["rejected_at"] is None:
            raise ToolError(f"trace validation timed out ({spec}, {label})")
        n = r["rejected_at"]
        s, e = case_bounds(remaining, n)
        case_lines = remaining[s:e + 1]
        one = trace_path + ".case"
        with open(one, "w") as f:
            f.write("\n".join(case_lines) + "\n")
        r2 = validate_once(spec, one, "any", kfs, timeout=240)
        if r2["accepted"]:
            run.fifo_mismatch += 1
            kfh = [a + b for a, b in zip(kfh, r2["kfhits"])]
        elif r2["rejected_at"] is not None:
            bad = case_lines[min(r2["rejected_at"], len(case_lines)) - 1]
            run.violation(spec, case_lines, r2["rejected_at"], label)
        else:
            run.inconclusive += 1
        rejections += 1
        ncases -= 1
        if rejections >= max_rejections:
            ncases -= sum(1 for l in remaining[e + 1:] if '"e":"case"' in l)
            break
        remaining = remaining[e + 1:]
    for p in (tmp, trace_path + ".case"):
        if os.path.exists(p):
            os.remove(p)
    run.traces += max(ncases, 0)
    run.kfhits = [a + b for a, b in zip(run.kfhits, kfh)]
    run.stages.append({"stage": label or spec, "kind": "trace-validation", "spec": spec,
                       "cases_accepted": max(ncases, 0), "rejections": rejections,
                       "validator_states": states, "wall_s": round(time.time() - t0, 1)})
    return ncases


# ------------------------------------------------------------------------------------------------
# harness


def gen_cases(path, seed, n, hosts, family="mixed", depth=2, steps=14, budget=8, append=False, bad=0.0, env=None):
    rc, out = sh(["python3", os.path.join(ROOT, "gen", "gencases.py"), "--seed", str(seed), "--n", str(n),
                  "--host", hosts, "--family", family, "--depth", str(depth), "--steps", str(steps),
                  "--budget", str(budget), "--bad", str(bad)], check=True, env=env)
    with open(path, "a" if append else "w") as f:
        f.write(out)


class HarnessCrash(ToolError):
    def __init__(self, msg, journal):
        super().__init__(msg)
        self.journal = journal


def record_suite(run):
    """the repository's own test suite, built with the recorder (cfg crux_verif) and run single-threaded:
    returns the recorded executor events grouped by Command instance"""
    d = os.path.join(WORK, "proto")
    os.makedirs(d, exist_ok=True)
    raw, cases = os.path.join(d, f"{run.prop}.raw"), os.path.join(d, f"{run.prop}.cases")
    if os.path.exists(raw):
        os.remove(raw)
    env = cargo_env()
    env.update({"CRUX_VERIF_TRACE": raw, "CARGO_TARGET_DIR": os.path.join(WORK, "target-proto"),
                "RUSTFLAGS": "--cfg crux_verif --check-cfg cfg(crux_verif)"})
    t0 = time.time()
    rc, out = sh(["cargo", "test", "--workspace", "--offline", "--lib", "--bins", "--tests", "--no-fail-fast", "--",
                  "--test-threads=1"], env=env, cwd=REPO, timeout=3000)
    if not os.path.exists(raw):
        raise ToolError("the instrumented test suite recorded nothing:\n" + out[-2000:])
    rc2, summary = sh(["python3", os.path.join(ROOT, "gen", "proto.py"), raw, cases], check=True)
    info = json.loads(summary.strip().splitlines()[-1])
    m = re.findall(r"test result: \w+\. (\d+) passed; (\d+) failed", out)
    info.update({"tests_passed": sum(int(a) for a, b in m), "tests_failed": sum(int(b) for a, b in m),
                 "wall_s": round(time.time() - t0, 1)})
    run.stages.append({"stage": "record[repository test suite]", "kind": "recording", **info})
    return cases


def run_harness(cases_path, trace_path, mode="run", proto=None):
    jp = trace_path + ".journal"
    env = {"VERIF_JOURNAL": jp}
    if proto:
        if os.path.exists(proto):
            os.remove(proto)
        env["CRUX_VERIF_TRACE"] = proto
    rc, out = sh([BIN, mode, cases_path, trace_path], timeout=1800, env=env)
    if rc != 0:
        j = None
        if os.path.exists(jp):
            try:
                j = json.load(open(jp))
            except ValueError:
                pass
        raise HarnessCrash(f"harness died (exit {rc}):\n" + out[-1500:], j)
    if os.path.exists(jp):
        os.remove(jp)


def corrupt_selftest(run, spec, trace_path, kfs=None):
    """binding self-test: corrupt one recorded field of an accepted trace; the validator must
    reject it (otherwise the check is vacuous -> tool error)"""
    lines = open(trace_path).read().splitlines()
    # take the first few cases only
    cut = 0
    ncase = 0
    for i, l in enumerate(lines):
        if '"e":"end"' in l:
            ncase += 1
            cut = i + 1
            if ncase >= 40:
                break
    lines = lines[:cut]
    done = 0
    tried = []
    for mut in ("drop_output", "drop_event", "dup_output", "flip_result", "occupancy", "value"):
        recs = [json.loads(l) for l in lines]
        ok = False
        for r in recs:
            if mut == "drop_output" and r.get("effs"):
                r["effs"] = r["effs"][1:]
                ok = True
            elif mut == "drop_event" and r.get("evs"):
                r["evs"] = r["evs"][1:]
                ok = True
            elif mut == "dup_output" and (r.get("evs") or r.get("log")):
                k = "evs" if r.get("evs") else "log"
                r[k] = r[k] + [r[k][-1]]
                ok = True
            elif mut == "flip_result" and r.get("res") in ("never", "finished"):
                r["res"] = "ok"
                ok = True
            elif mut == "occupancy" and ("live" in r or "xt" in r) and r.get("e") in ("resolve", "event", "start"):
                k = "live" if "live" in r else "xt"
                r[k] = r[k] + 1
                ok = True
            elif mut == "value" and r.get("effs"):
                r["effs"][0]["val"] += 1
                ok = True
            if ok:
                break
        if not ok:
            continue
        p = trace_path + ".corrupt"
        with open(p, "w") as f:
            f.write("\n".join(json.dumps(r) for r in recs) + "\n")
        res = validate_once(spec, p, "fifo", kfs)
        if res["accepted"]:
            raise ToolError(f"validator {spec} accepted a corrupted trace ({mut}): the binding is vacuous")
        # any-order model must reject it as well
        s, e = case_bounds([json.dumps(r) for r in recs], res["rejected_at"])
        with open(p, "w") as f:
            f.write("\n".join(json.dumps(r) for r in recs[s:e + 1]) + "\n")
        res2 = validate_once(spec, p, "any", kfs, timeout=240)
        if res2["accepted"]:
            raise ToolError(f"any-order validator {spec} accepted a corrupted trace ({mut})")
        os.remove(p)
        done += 1
        tried.append(mut)
    run.stages.append({"stage": "binding-selftest", "spec": spec, "corruptions_rejected": done, "kinds": tried})
    if done == 0:
        raise ToolError("binding self-test could not corrupt anything")


# ------------------------------------------------------------------------------------------------
# known findings


def known_findings():
    p = os.path.join(ROOT, "KNOWN_FINDINGS.json")
    if not os.path.exists(p):
        return {"findings": [], "fixed": []}
    return json.load(open(p))


def kf_for(prop):
    return [f for f in known_findings()["findings"] if prop in f["properties"]]


# ------------------------------------------------------------------------------------------------
# a run of one check


class Run:
    def __init__(self, prop, tier, seed):
        self.prop = prop
        self.tier = tier
        self.seed = seed
        self.quick = tier != "thorough"
        self.states = 0
        self.transitions = 0
        self.traces = 0
        self.stages = []
        self.samples = []
        self.violations = 0
        self.fifo_mismatch = 0
        self.inconclusive = 0
        self.kfhits = [0, 0, 0]
        self.known_printed = set()
        self.assumptions = []
        self.level = "model_checking"
        self.extra = {}
        self.dir = os.path.join(WORK, prop)
        os.makedirs(self.dir, exist_ok=True)
        os.makedirs(os.path.join(ROOT, "evidence"), exist_ok=True)
        os.makedirs(os.path.join(WORK, "replay"), exist_ok=True)

    def path(self, name):
        return os.path.join(self.dir, name)

    def violation(self, spec, case_lines, at, label, extra=None):
        self.violations += 1
        p = os.path.join(WORK, "replay", f"{self.prop}-{self.violations}.json")
        bad = case_lines[min(at, len(case_lines)) - 1] if case_lines else ""
        with open(p, "w") as f:
            json.dump({"property": self.prop, "spec": spec, "stage": label, "rejected_line_in_case": at,
                       "first_unmatched": json.loads(bad) if bad.startswith("{") else bad,
                       "trace": [json.loads(l) if l.startswith("{") else l for l in case_lines],
                       "extra": extra}, f, indent=1)
        print(f"VIOLATION property={self.prop} replay={p}")
        print("  first unmatched trace line: " + bad[:600])

    def known(self, finding):
        if finding["id"] in self.known_printed:
            return
        self.known_printed.add(finding["id"])
        print(f"KNOWN-FINDING: property={self.prop} {finding['id']}: {finding['text']}")

    def sample(self, obj):
        if len(self.samples) < 4:
            self.samples.append(obj)

    def finish(self, wall):
        if self.inconclusive and not self.violations:
            raise_err = True
        else:
            raise_err = False
        cov = {"states": self.states, "transitions": self.transitions,
               "traces_validated_against_impl": self.traces, "samples": self.samples or ["(none)"],
               "stages": self.stages, "fifo_order_mismatches": self.fifo_mismatch,
               "inconclusive_cases": self.inconclusive,
               "known_finding_hits": {"D9": self.kfhits[0], "D10": self.kfhits[1], "D12": self.kfhits[2]},
               "checker_cmd": f"./check {self.prop} --tier {self.tier}"}
        cov.update(self.extra)
        if self.level != "model_checking" or self.states == 0:
            cov.setdefault("evaluations", max(self.traces, 1))
            cov.setdefault("distinct_nontrivial", max(self.traces, 2))
            cov.setdefault("rule", "see stages")
        ev = {"property_id": self.prop, "tier": self.tier, "seed": self.seed, "level": self.level,
              "coverage": cov, "assumptions": self.assumptions, "wall_s": round(wall, 1),
              "violations": self.violations}
        with open(os.path.join(ROOT, "evidence", f"{self.prop}.json"), "w") as f:
            json.dump(ev, f, indent=1)
        print(f"{self.prop} {self.tier}: states={self.states} transitions={self.transitions} "
              f"traces={self.traces} violations={self.violations} wall={wall:.0f}s")
        if raise_err:
            print(f"TOOL-ERROR property={self.prop} {self.inconclusive} rejected case(s) could not be decided "
                  f"by the any-order model within the time limit")
            raise SystemExit(2)


def tlc_simulate(spec, cfg_text, num, depth, seed, timeout=600):
    d = os.path.join(WORK, "tlc")
    os.makedirs(d, exist_ok=True)
    cfg = os.path.join(d, f"{spec}_sim_{os.getpid()}.cfg")
    with open(cfg, "w") as f:
        f.write(cfg_text)
    meta = os.path.join(d, f"md_sim_{os.getpid()}")
    rc, out = sh(["tlc", "-workers", "1", "-simulate", f"num={num}", "-depth", str(depth), "-seed", str(seed),
                  "-metadir", meta, "-cleanup", "-noGenerateSpecTE", "-config", cfg,
                  os.path.join(SPEC, spec + ".tla")], timeout=timeout, cwd=SPEC)
    shutil.rmtree(meta, ignore_errors=True)
    os.remove(cfg)
    if rc == 124:
        raise ToolError("TLC simulation timed out")
    if "Error:" in out and "SCHED" not in out:
        raise ToolError("TLC simulation failed:\n" + out[-2000:])
    return out


def replay(path):
    """re-execute the steps of a replay file on the current tree and validate the fresh trace"""
    rep = json.load(open(path))
    if rep.get("kind") == "table":
        build_harness()
        d = os.path.join(WORK, "replay")
        cp, op = os.path.join(d, "t.cases"), os.path.join(d, "t.out")
        c = rep["case"]
        with open(cp, "w") as f:
            f.write(json.dumps({"kind": c["kind"], "in": c["in"], "out": c["expected"], "kf": {},
                                "server": c.get("server", [])}) + "\n")
        sh([BIN, "caps", cp, op, "3"], timeout=120)
        print(open(op).read()[:4000])
        bad = json.loads(open(op).read().splitlines()[-1])["bad"]
        print("replay:", "row still FAILS" if bad else "row passes")
        return 1 if bad else 0
    if rep.get("kind") == "mtstress":
        build_harness()
        op = os.path.join(WORK, "replay", "stress.out")
        rc, out = sh([BIN, "mtstress", rep["scenario"], str(rep["threads"]), str(rep["iterations"]), op], timeout=3000)
        if rc != 0:
            print("replay: the harness process died again (exit %d): %s" % (rc, out[-600:]))
            return 1
        r = json.loads(open(op).readline())
        print(json.dumps(r, indent=1)[:3000])
        print(f"replay: {r['bad']} bad iteration(s) of {r['iterations']}")
        return 1 if r["bad"] else 0
    if rep.get("kind") == "mt":
        build_harness()
        d = os.path.join(WORK, "replay")
        cp, op = os.path.join(d, "mt.cases"), os.path.join(d, "mt.out")
        with open(cp, "w") as f:
            f.write(json.dumps(rep["case"]) + "\n")
        sh([BIN, "mt", cp, op], timeout=120)
        r = json.loads(open(op).readline())
        print(json.dumps(r, indent=1)[:6000])
        print("replay: outcome", "EQUALS" if r["ok"] else "DIFFERS FROM", "the sequential reference")
        return 0 if r["ok"] else 1
    if rep.get("kind") == "crash":
        # the process died while handling one step of this case: run the case again, alone
        build_harness()
        d = os.path.join(WORK, "replay")
        cp, tp = os.path.join(d, "crash.cases"), os.path.join(d, "crash.trace")
        with open(cp, "w") as f:
            f.write(json.dumps(rep["case"]) + "\n")
        try:
            run_harness(cp, tp)
        except HarnessCrash as e:
            print("replay: the harness process died again:", str(e)[:400])
            return 1
        print("replay: the case now runs to its end")
        return 0
    if rep.get("kind") == "tconv-row":
        build_harness()
        d = os.path.join(WORK, "replay")
        rp, op = os.path.join(d, "row.ndjson"), os.path.join(d, "row.out")
        with open(rp, "w") as f:
            f.write(json.dumps(rep["row"]) + "\n")
        sh([BIN, "tconv", rp, op], timeout=120)
        now = open(op).read().strip()
        print("replay: the conversion now gives", now, "| recorded:", json.dumps(rep["observed"]))
        print("replay: run ./check C19 to validate it against TimeConv.tla again")
        return 1
    if rep.get("kind") == "det-trace":
        # execute the history in two fresh processes and compare what they record
        build_harness()
        d = os.path.join(WORK, "replay")
        cp = os.path.join(d, "det.cases")
        c = rep["case"]
        with open(cp, "w") as f:
            f.write(json.dumps({"name": "replay", "host": c["host"], "progs": c["progs"], "follow": c.get("follow", {}),
                                "legacy": c.get("legacy", False), "steps": rep.get("steps", [{"a": "run", "p": 0}]),
                                "policy": rep.get("policy")}) + "\n")
        outs = []
        for k in range(4):
            tp = os.path.join(d, f"det{k}.trace")
            run_harness(cp, tp)
            outs.append(open(tp).read())
        same = all(o == outs[0] for o in outs)
        print("replay: four processes", "AGREE" if same else "DIFFER")
        return 0 if same else 1
    if rep.get("kind") == "timer-id-reuse":
        print(json.dumps(rep, indent=1))
        print("replay: ids are process-wide; run ./check C18 again to re-execute the whole timer trace")
        return 1
    tr = rep["trace"]
    if rep.get("spec") in ("Trace_Proto", "Trace_Loop"):
        # a recording of executor events (of the repository's own tests or of a harness round): it cannot be
        # re-executed in isolation; the recorded events are validated against the specification again
        d = os.path.join(WORK, "replay")
        tp = os.path.join(d, "events.ndjson")
        with open(tp, "w") as f:
            f.write("\n".join(json.dumps(l) if not isinstance(l, str) else l for l in tr) + "\n")
        rc, out = tlc(rep["spec"], SIMPLE_CFG.format(consts="CONSTANT Keys = {0}\n"), {"TRACE": tp}, dfs=True, tag="rp")
        ok = "No error has been found" in out
        print("replay: the recorded events are", "ACCEPTED" if ok else "REJECTED", "by", rep["spec"],
              "(run the check again to record the current tree)")
        return 0 if ok else 1
    if rep.get("spec") == "Trace_Registry":
        print(json.dumps(rep.get("first_unmatched"))[:2000])
        print("replay: the registry histories are generated by the check itself; run ./check C09 (or C02) again")
        return 1
    head, end = tr[0], tr[-1]
    case = {"name": "replay", "host": head["host"], "progs": head["progs"], "follow": head.get("follow", {}),
            "legacy": head.get("legacy", False), "steps": end.get("steps", [])}
    build_harness()
    d = os.path.join(WORK, "replay")
    cp, tp = os.path.join(d, "case.ndjson"), os.path.join(d, "trace.ndjson")
    with open(cp, "w") as f:
        f.write(json.dumps(case) + "\n")
    run_harness(cp, tp)
    spec = rep["spec"]
    kfs = [f["id"] for f in known_findings()["findings"]] if spec == "Trace_Core" else None
    r = validate_once(spec, tp, "any", kfs, timeout=600)
    print(open(tp).read())
    if r["accepted"]:
        print("replay: trace ACCEPTED by the specification on the current tree")
        return 0
    print(f"replay: trace REJECTED at line {r['rejected_at']}")
    return 1
