#!/usr/bin/env python3
"""Small exhaustive program families for the MC_* configurations.

family.py cmd1   : every combinator expression of depth <= 1 over a fixed set of leaves
family.py scripts: hand-picked async scripts exercising select / join / spawn / abort / yield / streams
Writes one JSON array to stdout.
"""
import itertools
import json
import sys


class N:
    def __init__(self):
        self.i = 0
        self.t = 0

    def id(self):
        self.i += 1
        return self.i

    def tag(self):
        self.t += 1
        return self.t


def leaves(n):
    """constructors of leaf commands"""
    def done():
        return {"k": "done", "id": n.id(), "tid": n.id()}

    def event():
        return {"k": "event", "id": n.id(), "tid": n.id(), "tag": n.tag(), "val": 3}

    def notify():
        return {"k": "notify", "id": n.id(), "tid": n.id(), "tag": n.tag(), "val": 4}

    def req():
        return {"k": "chain", "id": n.id(), "tid": n.id(), "root": {"k": "req", "tag": n.tag(), "val": 5},
                "stages": [], "sink": {"tag": n.tag()}}

    def req2():
        return {"k": "chain", "id": n.id(), "tid": n.id(), "root": {"k": "req", "tag": n.tag(), "val": 5},
                "stages": [{"k": "map", "f": "inc"}, {"k": "then_req", "f": "dbl", "tag": n.tag()}],
                "sink": {"tag": n.tag()}}

    def stream():
        return {"k": "chain", "id": n.id(), "tid": n.id(), "root": {"k": "stream", "tag": n.tag(), "val": 6},
                "stages": [{"k": "map", "f": "inc"}], "sink": {"tag": n.tag()}}

    def stream_req():
        return {"k": "chain", "id": n.id(), "tid": n.id(), "root": {"k": "stream", "tag": n.tag(), "val": 6},
                "stages": [{"k": "then_req", "f": "id", "tag": n.tag()}], "sink": {"tag": n.tag()}}
    return [done, event, notify, req, req2, stream, stream_req]


def cmd1():
    out = []
    n = N()
    ls = leaves(n)
    for l in ls:
        n.i = n.t = 0
        out.append(l())
    for a, b in itertools.product(ls, ls):
        for k in ("then", "and"):
            n.i = n.t = 0
            out.append({"k": k, "id": n.id(), "tid": n.id(), "a": a(), "b": b()})
        n.i = n.t = 0
        out.append({"k": "all", "id": n.id(), "tid": n.id(),
                    "cs": [{"tid": n.id(), "c": a()}, {"tid": n.id(), "c": b()}]})
    for a in ls:
        for k, f in (("map_effect", "inc"), ("map_event", "dbl"), ("map_event", "id")):
            n.i = n.t = 0
            out.append({"k": k, "id": n.id(), "tid": n.id(), "f": f, "c": a()})
        n.i = n.t = 0
        out.append({"k": "all", "id": n.id(), "tid": n.id(), "cs": [{"tid": n.id(), "c": a()}]})
        n.i = n.t = 0
        out.append({"k": "all", "id": n.id(), "tid": n.id(), "cs": []})
    return out


def A(code, tid=2):
    return {"k": "async", "id": 1, "tid": tid, "code": code}


def R(tag, dst=1, src=None):
    return {"op": "req", "tag": tag, "src": src or {"c": 1}, "dst": dst}


def E(tag, r=1):
    return {"op": "emit", "tag": tag, "src": {"r": r}}


def LR(tag):
    return {"k": "req", "tag": tag, "src": {"c": 1}}


def scripts():
    sp = lambda tid, code, h: {"op": "spawn", "script": {"tid": tid, "code": code}, "h": h}
    out = [
        # select over two requests, then use the loser's slot again
        A([{"op": "select", "leaves": [LR(1), LR(2)], "dst": 1, "idx": 2}, E(3, 2), R(4), E(5)]),
        # join over two requests
        A([{"op": "join", "leaves": [LR(1), LR(2)], "dst": [1, 2]}, E(3, 1), E(4, 2)]),
        # spawn + join handle
        A([sp(3, [R(1), E(2)], 1), {"op": "joinh", "h": 1}, E(3)]),
        # spawn + abort immediately
        A([sp(3, [R(1), E(2)], 1), {"op": "abort", "h": 1}, {"op": "joinh", "h": 1}, E(3)]),
        # spawn, wait on request, then abort the child while it is suspended
        A([sp(3, [R(1), E(2), R(3), E(4)], 1), R(5), {"op": "abort", "h": 1}, {"op": "joinh", "h": 1}, E(6)]),
        # select between join handle and request
        A([sp(3, [R(1), E(2)], 1),
           {"op": "select", "leaves": [{"k": "joinh", "h": 1}, LR(3)], "dst": 1, "idx": 2}, E(4, 2)]),
        # stream loop with inner request
        A([{"op": "open", "tag": 1, "src": {"c": 1}, "s": 1},
           {"op": "next", "s": 1, "dst": 1, "else": 6}, R(2, 2, {"r": 1}), E(3, 2), {"op": "goto", "pc": 2}, E(4)]),
        # select between stream item and request, in sequence twice
        A([{"op": "open", "tag": 1, "src": {"c": 1}, "s": 1},
           {"op": "select", "leaves": [{"k": "next", "s": 1}, LR(2)], "dst": 1, "idx": 2}, E(3, 2),
           {"op": "select", "leaves": [{"k": "next", "s": 1}, LR(4)], "dst": 1, "idx": 2}, E(5, 2)]),
        # yield between outputs
        A([E(1), {"op": "yield"}, R(2), {"op": "yield"}, E(3)]),
        # join with a handle and a request; two waiters on one handle
        A([sp(3, [R(1)], 1), sp(4, [{"op": "joinh", "h": 1}, E(2)], 2),
           {"op": "join", "leaves": [{"k": "joinh", "h": 1}, LR(3)], "dst": [0, 1]}, E(4)]),
        # notify then request then notify
        A([{"op": "notify", "tag": 1, "src": {"c": 1}}, R(2), {"op": "notify", "tag": 3, "src": {"r": 1}}]),
        # two streams joined
        A([{"op": "open", "tag": 1, "src": {"c": 1}, "s": 1}, {"op": "open", "tag": 2, "src": {"c": 1}, "s": 2},
           {"op": "join", "leaves": [{"k": "next", "s": 1}, {"k": "next", "s": 2}], "dst": [1, 2]}, E(3, 1), E(4, 2)]),
        # a script nested under combinators
        {"k": "then", "id": 10, "tid": 11,
         "a": A([{"op": "select", "leaves": [LR(1), LR(2)], "dst": 1, "idx": 2}, E(3, 2)]),
         "b": {"k": "event", "id": 12, "tid": 13, "tag": 9, "val": 1}},
        {"k": "all", "id": 10, "tid": 11, "cs": [
            {"tid": 12, "c": A([sp(3, [R(1), E(2)], 1), {"op": "joinh", "h": 1}, E(3)])},
            {"tid": 13, "c": {"k": "chain", "id": 14, "tid": 15, "root": {"k": "req", "tag": 7, "val": 1},
                              "stages": [], "sink": {"tag": 8}}}]},
    ]
    return out


def scripts2(maxlen=3):
    """every script of <= maxlen items over a small alphabet of compound instructions"""
    items = ["req", "notify", "yield", "spawn_req", "spawn_stream", "sel_rr", "sel_hr", "join_rr", "join_hr",
             "joinh", "abort", "stream1"]
    needs_h = {"sel_hr", "join_hr", "joinh", "abort"}
    out = []
    for L in range(1, maxlen + 1):
        for combo in itertools.product(items, repeat=L):
            nh = 0
            ok = True
            for it in combo:
                if it in needs_h and nh == 0:
                    ok = False
                    break
                if it.startswith("spawn"):
                    nh += 1
            if not ok or nh > 2 or sum(1 for it in combo if it == "stream1") > 1:
                continue
            t = [0]
            tid = [2]

            def tag():
                t[0] += 1
                return t[0]
            code = []
            h = 0
            for it in combo:
                if it == "req":
                    code += [R(tag()), E(tag())]
                elif it == "notify":
                    code.append({"op": "notify", "tag": tag(), "src": {"c": 1}})
                elif it == "yield":
                    code.append({"op": "yield"})
                elif it == "spawn_req":
                    h += 1
                    tid[0] += 1
                    code.append({"op": "spawn", "script": {"tid": tid[0], "code": [R(tag()), E(tag())]}, "h": h})
                elif it == "spawn_stream":
                    h += 1
                    tid[0] += 1
                    code.append({"op": "spawn", "script": {"tid": tid[0], "code": [
                        {"op": "open", "tag": tag(), "src": {"c": 1}, "s": 1},
                        {"op": "next", "s": 1, "dst": 1, "else": 5}, E(tag()), {"op": "goto", "pc": 2}]}, "h": h})
                elif it == "sel_rr":
                    code += [{"op": "select", "leaves": [LR(tag()), LR(tag())], "dst": 1, "idx": 2}, E(tag(), 2)]
                elif it == "sel_hr":
                    code += [{"op": "select", "leaves": [{"k": "joinh", "h": h}, LR(tag())], "dst": 1, "idx": 2}, E(tag(), 2)]
                elif it == "join_rr":
                    code += [{"op": "join", "leaves": [LR(tag()), LR(tag())], "dst": [1, 2]}, E(tag())]
                elif it == "join_hr":
                    code += [{"op": "join", "leaves": [{"k": "joinh", "h": h}, LR(tag())], "dst": [0, 1]}, E(tag())]
                elif it == "joinh":
                    code += [{"op": "joinh", "h": h}, E(tag())]
                elif it == "abort":
                    code.append({"op": "abort", "h": h})
                elif it == "stream1":
                    code += [{"op": "open", "tag": tag(), "src": {"c": 1}, "s": 1},
                             {"op": "next", "s": 1, "dst": 1, "else": len(code) + 4}, E(tag())]
            out.append(A(code))
    return out


def event_tags(x, acc):
    if isinstance(x, dict):
        if x.get("op") == "emit" or x.get("k") == "event":
            acc.append(x["tag"])
        if "sink" in x:
            acc.append(x["sink"]["tag"])
        for v in x.values():
            event_tags(v, acc)
    elif isinstance(x, list):
        for v in x:
            event_tags(v, acc)


def apps1():
    """small apps: a base program whose first event has a follow-up command (event / notify / request chain)"""
    bases = cmd1()[:7] + [c for c in cmd1()[7:] if c["k"] in ("then", "all")][::6] + scripts()[:8]
    follows = [
        {"k": "event", "id": 901, "tid": 902, "tag": 990, "val": 2},
        {"k": "notify", "id": 901, "tid": 902, "tag": 991, "val": 2},
        {"k": "chain", "id": 901, "tid": 902, "root": {"k": "req", "tag": 992, "val": 2}, "stages": [], "sink": {"tag": 993}},
    ]
    out = []
    # a task emits two events and then waits for a case-wide channel; handling the first event starts a command
    # that pokes the channel, the task wakes up inside the same call and emits a third event
    G = lambda code: {"k": "async", "id": 901, "tid": 902, "code": code}
    waiter = A([E(1), E(2), {"op": "grecv", "g": 1, "dst": 1}, E(3, 1), R(4), E(5)])
    out.append({"progs": [waiter, G([{"op": "gsend", "g": 1, "src": {"c": 7}}])], "follow": {"1": 1}})
    out.append({"progs": [waiter, G([R(990), {"op": "gsend", "g": 1, "src": {"r": 1}}, E(991)])], "follow": {"2": 1}})
    for b in bases:
        tags = []
        event_tags(b, tags)
        out.append({"progs": [b], "follow": {}})
        if tags:
            for f in follows:
                out.append({"progs": [b, f], "follow": {str(tags[0]): 1}})
                if len(tags) > 1 and f["k"] == "event":
                    # a two-level chain: the follow-up's own event has a follow-up too
                    g = {"k": "notify", "id": 911, "tid": 912, "tag": 995, "val": 3}
                    out.append({"progs": [b, f, g], "follow": {str(tags[0]): 1, "990": 2}})
    return out


def flat1():
    """chains with then_stream: RequestBuilder's (sequential flat_map) and StreamBuilder's (flatten_unordered)"""
    def ch(root, stages, i=1):
        return {"k": "chain", "id": i, "tid": i + 1, "root": {"k": root, "tag": 1, "val": 1}, "stages": stages,
                "sink": {"tag": 9}}
    ts = lambda **kw: dict({"k": "then_stream", "f": "id", "tag": 2}, **kw)
    base = [
        ch("stream", [ts()]),
        ch("stream", [ts(itag=3)]),
        ch("stream", [{"k": "map", "f": "inc"}, ts(f="dbl"), {"k": "then_req", "f": "id", "tag": 4}]),
        ch("req", [ts()]),
        ch("req", [{"k": "then_req", "f": "inc", "tag": 5}, ts(itag=3), {"k": "map", "f": "dbl"}]),
    ]
    out = list(base)
    ev = {"k": "event", "id": 11, "tid": 12, "tag": 8, "val": 3}
    out.append({"k": "then", "id": 21, "tid": 22, "a": base[1], "b": ev})
    out.append({"k": "and", "id": 21, "tid": 22, "a": base[0], "b": ev})
    out.append({"k": "map_event", "id": 21, "tid": 22, "f": "inc", "c": base[2]})
    return out


def chan1():
    """task-to-task channels (futures mpsc): a pipe up (children send, the parent receives), a pipe down,
    select / join over a channel and shell requests, a sender that is evicted or aborted"""
    sp = lambda tid, code, h: {"op": "spawn", "script": {"tid": tid, "code": code}, "h": h}
    CH, CL = {"op": "chan", "c": 1}, {"op": "closec", "c": 1}
    SD = lambda r=1: {"op": "send", "c": 1, "src": {"r": r}}
    RV = lambda els, dst=2: {"op": "recv", "c": 1, "dst": dst, "else": els}
    LC = {"k": "recv", "c": 1}
    return [
        # up: the child sends what the shell answered; the parent drains until the channel closes
        A([CH, sp(3, [R(1), SD(), R(2), SD()], 1), CL, RV(7), E(3, 2), {"op": "goto", "pc": 4}, E(4)]),
        # down: the parent sends, the child (which lets go of its own sender first) drains
        A([CH, sp(3, [CL, RV(5), E(1, 2), {"op": "goto", "pc": 2}, E(2)], 1), R(3), SD(), R(4), SD()]),
        # select between the channel and a request; the loser stays around
        A([CH, sp(3, [R(1), SD()], 1), CL,
           {"op": "select", "leaves": [LC, LR(2)], "dst": 1, "idx": 2}, E(3, 2), RV(8, 3), E(4, 3), E(5)]),
        # join over the channel and the child's join handle
        A([CH, sp(3, [R(1), SD()], 1), CL, {"op": "join", "leaves": [LC, {"k": "joinh", "h": 1}], "dst": [1, 0]}, E(2)]),
        # non-blocking looks at a stream (now_or_never) around a blocking request, then a blocking read
        A([{"op": "open", "tag": 1, "src": {"c": 1}, "s": 1}, {"op": "trynext", "s": 1, "dst": 1}, E(2, 1),
           R(3, 2), {"op": "trynext", "s": 1, "dst": 1}, E(4, 1), {"op": "next", "s": 1, "dst": 1, "else": 9}, E(5, 1), E(6)]),
        # a non-blocking look at a channel while the sender still waits for the shell
        A([CH, sp(3, [R(1), SD()], 1), CL, {"op": "tryrecv", "c": 1, "dst": 2}, E(2, 2), RV(8), E(3, 2), E(4)]),
        # two senders, one of them aborted by the parent after the first message
        A([CH, sp(3, [R(1), SD(), R(2), SD()], 1), sp(4, [R(3), SD()], 2), CL,
           RV(9), E(4, 2), {"op": "abort", "h": 1}, {"op": "goto", "pc": 5}, E(5)]),
    ]


def laws1():
    """pairs of commands that a law of C04 declares equal"""
    n = N()
    ls = leaves(n)

    def fresh(mk):
        n.i = n.t = 0
        return mk()

    def pairfresh(a, b):
        n.i = n.t = 0
        return a(), b()
    base = [fresh(l) for l in ls]
    for a, b in itertools.product(ls[1:], ls[3:]):
        x, y = pairfresh(a, b)
        base.append({"k": "then", "id": 801, "tid": 802, "a": x, "b": y})
    base += scripts()[:6] + flat1()[:3]
    D = lambda i: {"k": "done", "id": i, "tid": i + 1}
    out = []
    for p in base:
        out.append({"law": "then(done, p) = p", "a": {"k": "then", "id": 901, "tid": 902, "a": D(903), "b": p}, "b": p})
        out.append({"law": "then(p, done) = p", "a": {"k": "then", "id": 901, "tid": 902, "a": p, "b": D(903)}, "b": p})
        out.append({"law": "and(done, p) = p", "a": {"k": "and", "id": 901, "tid": 902, "a": D(903), "b": p}, "b": p})
        out.append({"law": "and(p, done) = p", "a": {"k": "and", "id": 901, "tid": 902, "a": p, "b": D(903)}, "b": p})
        out.append({"law": "all([p]) = p", "a": {"k": "all", "id": 901, "tid": 902, "cs": [{"tid": 903, "c": p}]}, "b": p})
        out.append({"law": "map_event(id, p) = p", "a": {"k": "map_event", "id": 901, "tid": 902, "f": "id", "c": p}, "b": p})
        out.append({"law": "map_effect(id, p) = p", "a": {"k": "map_effect", "id": 901, "tid": 902, "f": "id", "c": p}, "b": p})
        out.append({"law": "Command::from(p) = p.into() = p",
                    "a": {"k": "into", "id": 901, "tid": 902, "id2": 903, "tid2": 904, "via_from": True, "c": p}, "b": p})
    for a, b in itertools.combinations(ls[1:], 2):
        x, y = pairfresh(a, b)
        out.append({"law": "and(p, q) = and(q, p)",
                    "a": {"k": "and", "id": 901, "tid": 902, "a": x, "b": y},
                    "b": {"k": "and", "id": 901, "tid": 902, "a": y, "b": x}})
        out.append({"law": "all([p, q]) = all([q, p])",
                    "a": {"k": "all", "id": 901, "tid": 902, "cs": [{"tid": 903, "c": x}, {"tid": 904, "c": y}]},
                    "b": {"k": "all", "id": 901, "tid": 902, "cs": [{"tid": 903, "c": y}, {"tid": 904, "c": x}]}})
    return out


if __name__ == "__main__":
    fam = sys.argv[1]
    progs = {"cmd1": cmd1, "scripts": scripts, "scripts2": lambda: scripts2(2), "scripts3": lambda: scripts2(3), "apps1": apps1, "flat1": flat1, "chan1": chan1, "laws1": laws1}[fam]()
    if len(sys.argv) > 2:
        lo, hi = map(int, sys.argv[2].split(":"))
        progs = progs[lo:hi]
    json.dump(progs, sys.stdout)
