#!/usr/bin/env python3
"""Seeded generator of programs of the command DSL (DESIGN.md 2.3) and of cases (program table +
schedule policy) for the harness.  Stdlib only.

usage: gencases.py --seed N --n K --host direct[,stream,...] [--depth D] [--family cmd|script|mixed]
writes ndjson cases to stdout
"""
import argparse
import json
import os
import random
import sys


class Ids:
    def __init__(self):
        self.n = 0

    def next(self):
        self.n += 1
        return self.n


FS = ["id", "inc", "dbl"]
P_LIKE = float(os.environ.get("GEN_PLIKE", "0.3"))   # share of cases in which operations repeat


class Gen:
    mixed_api = 0.0   # probability that a request / stream of a command script uses the capability API
    p_burst = float(os.environ.get("GEN_PBURST", "0.012"))   # probability that a script step is a burst of 33-44 outputs
    p_gchan = float(os.environ.get("GEN_PGCH", "0.05"))   # probability that a script step uses a case-wide channel
    p_try = float(os.environ.get("GEN_PTRY", "0.08"))   # probability of a non-blocking read when a stream / channel is at hand
    p_chan = float(os.environ.get("GEN_PCH", "0.10"))   # probability that a script step is a task-to-task channel step
    p_then_stream = float(os.environ.get("GEN_PTS", "0.12"))   # probability that a chain has a then_stream stage

    def __init__(self, rng, ids, max_depth=3, family="mixed", script_budget=8):
        self.r = rng
        self.ids = ids
        self.max_depth = max_depth
        self.family = family
        self.budget = script_budget
        self.tagc = 0
        self.cmd_ids = []
        self.bursts = 0

    def tag(self):
        self.tagc += 1
        return self.tagc

    # ---- commands -------------------------------------------------------------------------
    def cmd(self, depth=0):
        r = self.r
        leafy = depth >= self.max_depth
        kinds_leaf = ["done", "event", "notify", "chain", "chain", "chain"]
        if self.family in ("script", "mixed"):
            kinds_leaf += ["async", "async"]
        if self.family == "script" and depth == 0:
            kinds_leaf = ["async"]
        kinds_comb = ["then", "and", "all", "map_effect", "map_event", "into"]
        if self.family == "legacy":
            kinds_comb = ["and", "all"]
            kinds_leaf = ["done", "event", "notify", "chain", "chain", "async", "async"]
        if leafy or (depth > 0 and r.random() < 0.45) or (self.family == "script" and depth == 0):
            k = r.choice(kinds_leaf)
        else:
            k = r.choice(kinds_comb)
        cid, tid = self.ids.next(), self.ids.next()
        if k != "and":
            self.cmd_ids.append(cid)
        if k == "done":
            return {"k": "done", "id": cid, "tid": tid}
        if k == "event":
            return {"k": "event", "id": cid, "tid": tid, "tag": self.tag(), "val": r.randint(1, 9)}
        if k == "notify":
            return {"k": "notify", "id": cid, "tid": tid, "tag": self.tag(), "val": r.randint(1, 9)}
        if k == "chain":
            root = {"k": r.choice(["req", "req", "stream"]), "tag": self.tag(), "val": r.randint(1, 9)}
            stages = []
            for _ in range(r.choice([0, 0, 1, 1, 2, 3])):
                if r.random() < 0.5:
                    stages.append({"k": "map", "f": r.choice(FS)})
                else:
                    stages.append({"k": "then_req", "f": r.choice(FS), "tag": self.tag()})
            # then_stream: RequestBuilder's is sequential (flat_map), StreamBuilder's is flatten_unordered;
            # at most one per chain, and on a stream root only pure maps come before it
            if self.family != "legacy" and r.random() < self.p_then_stream:
                ts = {"k": "then_stream", "f": r.choice(FS), "tag": self.tag()}
                if r.random() < 0.4:
                    ts["itag"] = self.tag()
                if root["k"] == "req":
                    stages.insert(r.randint(0, len(stages)), ts)
                else:
                    k = 0
                    while k < len(stages) and stages[k]["k"] == "map":
                        k += 1
                    stages.insert(r.randint(0, k), ts)
            return {"k": "chain", "id": cid, "tid": tid, "root": root, "stages": stages,
                    "sink": {"tag": self.tag()}}
        if k == "async":
            return {"k": "async", "id": cid, "tid": tid, "code": self.script(self.budget, [], depth)}
        if k in ("then", "and"):
            return {"k": k, "id": cid, "tid": tid, "a": self.cmd(depth + 1), "b": self.cmd(depth + 1)}
        if k == "all":
            if r.random() < self.p_burst * 2 and not self.bursts and self.family != "legacy":
                # a wide all: three dozen members that each produce one output at once
                self.bursts += 1
                cs = []
                for _ in range(r.randint(33, 40)):
                    mt, mi, mtid = self.ids.next(), self.ids.next(), self.ids.next()
                    kind = r.choice(["event", "notify"])
                    cs.append({"tid": mt, "c": {"k": kind, "id": mi, "tid": mtid, "tag": self.tag(), "val": r.randint(1, 9)}})
                return {"k": "all", "id": cid, "tid": tid, "cs": cs}
            n = r.choice([0, 1, 2, 2, 3])
            return {"k": "all", "id": cid, "tid": tid,
                    "cs": [{"tid": self.ids.next(), "c": self.cmd(depth + 1)} for _ in range(n)]}
        if k in ("map_effect", "map_event"):
            return {"k": k, "id": cid, "tid": tid, "f": r.choice(FS), "c": self.cmd(depth + 1)}
        if k == "into":
            return {"k": "into", "id": cid, "tid": tid, "id2": self.ids.next(), "tid2": self.ids.next(),
                    "via_from": r.random() < 0.5, "c": self.cmd(depth + 1)}
        raise AssertionError(k)

    # ---- scripts --------------------------------------------------------------------------
    def src(self, regs_ok=True):
        if regs_ok and self.r.random() < 0.5:
            return {"r": self.r.randint(1, 4)}
        return {"c": self.r.randint(1, 9)}

    def leaf(self, handles, streams, rxs=()):
        r = self.r
        opts = ["req", "req"]
        if handles and self.family != "legacy":
            opts.append("joinh")
        if streams:
            opts.append("next")
        if rxs:
            opts += ["recv", "recv"]
        if self.family != "legacy" and r.random() < 2 * self.p_gchan:
            opts += ["grecv"]
        k = r.choice(opts)
        if k == "grecv":
            return {"k": "grecv", "g": r.choice([1, 1, 2])}
        if k == "recv":
            return {"k": "recv", "c": r.choice(list(rxs))}
        if k == "req":
            lf = {"k": "req", "tag": self.tag(), "src": self.src()}
            if r.random() < self.mixed_api:
                lf["l"] = True
            return lf
        if k == "joinh":
            return {"k": "joinh", "h": r.choice(handles)}
        return {"k": "next", "s": r.choice(streams)}

    def script(self, budget, inherited_handles, depth, chans=None):
        """returns a list of instructions (1-based pcs inside)
        chans: slot -> role of this task on the task-to-task channel in that slot ("rx": it is the one task
        that receives, "tx": it only sends; "down": it created the channel and the next task it spawns is
        the receiver)"""
        r = self.r
        code = []
        handles = list(inherited_handles)
        streams = []
        chans = dict(chans or {})
        n = r.randint(1, max(1, budget))
        while n > 0:
            n -= 1
            k = r.choice(["emit", "notify", "req", "req", "loop", "spawn", "abort", "joinh",
                          "join", "select", "select", "yield", "open"])
            if self.family in ("script", "mixed") and r.random() < self.p_chan:
                k = r.choice(["chan", "chan", "send", "send", "recv", "recv", "closec"])
                rxs = [c for c, role in chans.items() if role == "rx"]
                txs = [c for c, role in chans.items() if role in ("tx", "down")]
                if k == "chan":
                    free = [c for c in (1, 2) if c not in chans]
                    if free and depth <= 2:
                        c = free[0]
                        chans[c] = r.choice(["rx", "down"])
                        code.append({"op": "chan", "c": c})
                        n += 1          # a channel wants a task on its other end
                        k = "spawn"
                    else:
                        continue
                elif k == "send" and txs:
                    code.append({"op": "send", "c": r.choice(txs), "src": self.src()})
                    continue
                elif k == "closec" and (txs or rxs):
                    c = r.choice(txs + rxs)
                    code.append({"op": "closec", "c": c})
                    if chans[c] != "rx":
                        chans[c] = "closed"
                    continue
                elif k == "recv" and rxs:
                    c = r.choice(rxs)
                    dst = r.randint(1, 4)
                    if r.random() < 0.5:
                        code.append({"op": "recv", "c": c, "dst": dst, "else": len(code) + 3})
                        code.append({"op": "emit", "tag": self.tag(), "src": {"r": dst}})
                    else:
                        # drain loop: until the channel is closed and empty
                        head = len(code) + 1
                        code.append({"op": "recv", "c": c, "dst": dst, "else": head + 3})
                        code.append({"op": "emit", "tag": self.tag(), "src": {"r": dst}})
                        code.append({"op": "goto", "pc": head})
                    continue
                else:
                    continue
            if self.family != "legacy" and self.cmd_ids and r.random() < 0.04:
                # the task aborts a command itself (its own, an enclosing one, or another one)
                code.append({"op": "abortc", "id": r.choice(self.cmd_ids[-4:])})
                continue
            if self.family == "legacy" and k in ("abort", "joinh"):
                continue
            if self.family != "legacy" and r.random() < self.p_gchan:
                # a channel that belongs to the case (a sender kept in the app's model): any task of any command
                g = r.choice([1, 1, 2])
                if r.random() < 0.6:
                    code.append({"op": "gsend", "g": g, "src": self.src()})
                else:
                    dst = r.randint(1, 4)
                    code.append({"op": "grecv", "g": g, "dst": dst})
                    if r.random() < 0.7:
                        code.append({"op": "emit", "tag": self.tag(), "src": {"r": dst}})
                continue
            if r.random() < self.p_burst and not self.bursts:
                # a burst: dozens of outputs from one poll (queue limits, batching and back-pressure in
                # whatever forwards them only show beyond a few dozen)
                self.bursts += 1
                for _ in range(r.randint(33, 44)):
                    if r.random() < 0.6:
                        code.append({"op": "notify", "tag": self.tag(), "src": self.src()})
                    else:
                        code.append({"op": "emit", "tag": self.tag(), "src": self.src()})
                continue
            if streams and r.random() < self.p_try:
                # a non-blocking look at a stream (now_or_never)
                dst = r.randint(1, 4)
                code.append({"op": "trynext", "s": r.choice(streams), "dst": dst})
                if r.random() < 0.6:
                    code.append({"op": "emit", "tag": self.tag(), "src": {"r": dst}})
                continue
            rx_now = [c for c, role in chans.items() if role == "rx"]
            if rx_now and r.random() < self.p_try:
                dst = r.randint(1, 4)
                code.append({"op": "tryrecv", "c": r.choice(rx_now), "dst": dst})
                code.append({"op": "emit", "tag": self.tag(), "src": {"r": dst}})
                continue
            if k == "emit":
                code.append({"op": "emit", "tag": self.tag(), "src": self.src()})
            elif k == "notify":
                code.append({"op": "notify", "tag": self.tag(), "src": self.src()})
            elif k == "req":
                dst = r.randint(1, 4)
                code.append({"op": "req", "tag": self.tag(), "src": self.src(), "dst": dst})
                if r.random() < self.mixed_api:
                    code[-1]["l"] = True
                if r.random() < 0.4:
                    code.append({"op": "map", "f": r.choice(FS), "reg": dst})
                if r.random() < 0.6:
                    code.append({"op": "emit", "tag": self.tag(), "src": {"r": dst}})
            elif k == "open":
                free = [s for s in (1, 2) if s not in streams]
                if free:
                    s = free[0]
                    streams.append(s)
                    code.append({"op": "open", "tag": self.tag(), "src": self.src(), "s": s})
                    if r.random() < 2 * self.mixed_api:
                        code[-1]["l"] = True
            elif k == "loop":
                free = [s for s in (1, 2) if s not in streams]
                if not free:
                    continue
                s = free[0]
                streams.append(s)
                dst = r.randint(1, 4)
                code.append({"op": "open", "tag": self.tag(), "src": self.src(), "s": s})
                if r.random() < 2 * self.mixed_api:
                    code[-1]["l"] = True
                head = len(code) + 1
                body = []
                if r.random() < 0.4:
                    body.append({"op": "map", "f": r.choice(FS), "reg": dst})
                for _ in range(r.choice([1, 1, 2])):
                    bk = r.choice(["emit", "emit", "notify", "req", "yield"])
                    if bk == "emit":
                        body.append({"op": "emit", "tag": self.tag(), "src": {"r": dst}})
                    elif bk == "notify":
                        body.append({"op": "notify", "tag": self.tag(), "src": {"r": dst}})
                    elif bk == "yield":
                        body.append({"op": "yield"})
                    else:
                        d2 = r.choice([x for x in (1, 2, 3, 4) if x != dst])
                        body.append({"op": "req", "tag": self.tag(), "src": {"r": dst}, "dst": d2})
                        body.append({"op": "emit", "tag": self.tag(), "src": {"r": d2}})
                end = head + 1 + len(body) + 1   # pc after the goto
                code.append({"op": "next", "s": s, "dst": dst, "else": end})
                code.extend(body)
                code.append({"op": "goto", "pc": head})
            elif k == "spawn":
                free = [h for h in (1, 2, 3) if h not in handles]
                if not free or depth > 3:
                    continue
                h = free[0]
                # roles on the channels the child inherits: the first child spawned after a "down" channel
                # was created is its receiver; everybody else sends
                croles = {}
                for c, role in list(chans.items()):
                    if role == "down":
                        croles[c] = "rx"
                        chans[c] = "tx"
                    elif role in ("rx", "tx"):
                        croles[c] = "tx"
                    else:
                        croles[c] = "closed" if role == "closed" else "tx"
                child = self.script(max(1, budget // 2), handles, depth + 1, croles)
                code.append({"op": "spawn", "script": {"tid": self.ids.next(), "code": child}, "h": h})
                handles.append(h)
            elif k == "abort":
                if handles:
                    code.append({"op": "abort", "h": r.choice(handles)})
            elif k == "joinh":
                if handles:
                    code.append({"op": "joinh", "h": r.choice(handles)})
            elif k == "join":
                m = r.choice([1, 2, 2, 3])
                ss = list(streams)
                leaves = []
                rx = [c for c, role in chans.items() if role == "rx"]
                for _ in range(m):
                    lf = self.leaf(handles, ss, rx)
                    if lf["k"] == "next":
                        ss.remove(lf["s"])
                    if lf["k"] == "recv":
                        rx = [c for c in rx if c != lf["c"]]
                    leaves.append(lf)
                dst = r.sample([1, 2, 3, 4], m)
                dst = [d if r.random() < 0.8 else 0 for d in dst]
                code.append({"op": "join", "leaves": leaves, "dst": dst})
                if r.random() < 0.7:
                    code.append({"op": "emit", "tag": self.tag(), "src": {"r": r.randint(1, 4)}})
            elif k == "select":
                m = r.choice([2, 2, 3])
                ss = list(streams)
                leaves = []
                rx = [c for c, role in chans.items() if role == "rx"]
                for _ in range(m):
                    lf = self.leaf(handles, ss, rx)
                    if lf["k"] == "next":
                        ss.remove(lf["s"])
                    if lf["k"] == "recv":
                        rx = [c for c in rx if c != lf["c"]]
                    leaves.append(lf)
                d, i = r.sample([1, 2, 3, 4], 2)
                code.append({"op": "select", "leaves": leaves, "dst": d, "idx": i})
                code.append({"op": "emit", "tag": self.tag(), "src": {"r": r.choice([d, i])}})
            elif k == "yield":
                code.append({"op": "yield"})
        return code


def collect_tags(x, acc):
    """tags of events a program can emit (emit instructions, event nodes, chain sinks)"""
    if isinstance(x, dict):
        if x.get("op") == "emit" or x.get("k") == "event":
            acc.append(x["tag"])
        if "sink" in x:
            acc.append(x["sink"]["tag"])
        for v in x.values():
            collect_tags(v, acc)
    elif isinstance(x, list):
        for v in x:
            collect_tags(v, acc)


def likeify(progs, rng):
    """C02's look-alikes: several requests of one program carry EQUAL operations (same tag and value; VOp's
    equality does not look at the stamp, which is what the driver tells them apart by).  Constant
    operations copy tag and value from an earlier one."""
    seen = []

    def walk(x):
        if isinstance(x, dict):
            isop = x.get("k") in ("req", "stream", "notify") or x.get("op") in ("req", "notify", "open")
            const = ("val" in x and isinstance(x["val"], int)) or (isinstance(x.get("src"), dict) and "c" in x["src"])
            if isop and "tag" in x and const:
                if seen and rng.random() < 0.6:
                    t, v = rng.choice(seen)
                    x["tag"] = t
                    if "val" in x:
                        x["val"] = v
                    else:
                        x["src"] = {"c": v}
                seen.append((x["tag"], x["val"] if "val" in x else x["src"]["c"]))
            for v in x.values():
                walk(v)
        elif isinstance(x, list):
            for v in x:
                walk(v)

    walk(progs)


def make_case(rng, host, depth, family, nsteps, name, budget=8, p_bad=0.0):
    ids = Ids()
    legacy = host in ("core_legacy", "tester_legacy")
    if legacy:
        family, host = "legacy", host.split("_")[0]
    g = Gen(rng, ids, max_depth=depth, family=family, script_budget=budget)
    direct = host in ("direct", "stream")
    if not direct and not legacy and family in ("mixed", "script"):
        # capability-API futures inside Command tasks (only a Core has a capability context)
        g.mixed_api = rng.choice([0.0, 0.15, 0.3])
    progs = [g.cmd(0)]
    follow = {}
    # (a generator of its own, so that the cases of a seed are what they were before look-alikes existed)
    like = random.Random(f"like-{name}")
    like = like if like.random() < P_LIKE else None
    if direct and like:
        likeify(progs, like)
    if not direct:
        for _ in range(rng.choice([0, 1, 2])):
            progs.append(g.cmd(0))
        if like:
            likeify(progs, like)
        tags = []
        collect_tags(progs, tags)
        # follow-up programs: small, and their own events have no follow-ups (acyclic)
        g2 = Gen(rng, ids, max_depth=1, family="legacy" if legacy else "cmd", script_budget=3)
        g2.tagc = 1000
        for t in rng.sample(tags, min(len(tags), rng.choice([0, 1, 2, 3]))):
            progs.append(g2.cmd(1))
            follow[str(t)] = len(progs) - 1
    pol = {"kind": "random", "seed": rng.randrange(1 << 30), "max": nsteps,
           "p_drop": rng.choice([0.0, 0.15, 0.3]) if host in ("direct", "stream", "core", "tester") else 0.0,
           "p_late": rng.choice([0.0, 0.1, 0.3]),
           "p_abort": rng.choice([0.0, 0.0, 0.1]) if host != "stream" else 0.0,
           # (under AppTester the "noop" steps feed the returned events back through update)
           "p_noop": 0.0 if direct else 0.3 if host == "tester" else 0.15,
           "p_run": 0.0 if direct else 0.1,
           "p_batch": rng.choice([0.0, 0.25, 0.5]) if host == "direct" else 0.0,
           "p_bad": p_bad if host.startswith("bridge") else 0.0,
           # long histories keep the outstanding work bounded: that is what "bounded by outstanding work,
           # not by the length of the history" is about (and what keeps the validator's states small)
           "max_out": 10 if nsteps >= 200 else 0}
    return {"name": name, "host": host, "progs": progs, "follow": follow, "legacy": legacy,
            "steps": [{"a": "run", "p": 0}], "policy": pol}


def main():
    ap = argparse.ArgumentParser()
    ap.add_argument("--seed", type=int, default=1)
    ap.add_argument("--n", type=int, default=100)
    ap.add_argument("--host", default="direct")
    ap.add_argument("--depth", type=int, default=2)
    ap.add_argument("--family", default="mixed")
    ap.add_argument("--steps", type=int, default=14)
    ap.add_argument("--budget", type=int, default=8)
    ap.add_argument("--bad", type=float, default=0.0)
    a = ap.parse_args()
    rng = random.Random(a.seed)
    hosts = a.host.split(",")
    for i in range(a.n):
        host = hosts[i % len(hosts)]
        c = make_case(rng, host, a.depth, a.family, a.steps, f"s{a.seed}-{i}", a.budget, a.bad)
        sys.stdout.write(json.dumps(c) + "\n")


if __name__ == "__main__":
    main()
