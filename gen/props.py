"""Per-property decision procedures (DESIGN.md section 4)."""
import json
import os

import lib

ALL_INV = ["ReadyClosed", "EvictionSound", "DoneWhenSettled", "NoOutputAfterCancel",
           "AbortedDoneAfterDrain", "AritySafe", "Released", "ThenSequential"]


def mc_cfg(invs, harvest=True):
    s = 'SPECIFICATION MSpec\nCONSTANT Sched = "any"\nCONSTANT KFS = {}\n'
    for i in invs:
        s += f"INVARIANT {i}\n"
    if harvest:
        s += "INVARIANT EmitSched\n"
    s += "CHECK_DEADLOCK FALSE\n"
    return s


def family_file(run, fam, sl=None):
    p = run.path(f"fam_{fam}.json")
    args = ["python3", os.path.join(lib.ROOT, "gen", "family.py"), fam]
    if sl:
        args.append(sl)
    rc, out = lib.sh(args, check=True)
    with open(p, "w") as f:
        f.write(out)
    return p, json.loads(out)


def mc_and_replay(run, fam, maxact, invs, hosts, need=("MResolve", "MDrop", "MAbort", "MTake"), spec_hosts=None,
                  cap=None):
    """exhaustive model checking of a program family under every poll order and shell schedule,
    then every terminal behaviour replayed on the implementation under each host and validated"""
    path, progs = family_file(run, fam)
    out = lib.mc(run, "MC_Command", mc_cfg(invs), {"PROGS": path, "MAXACT": str(maxact), "HARVEST": "1"},
                 need_actions=need, label=f"MC_Command[{fam},maxact={maxact}]")
    scheds = lib.harvest(out)
    if cap and len(scheds) > cap:
        step = len(scheds) / cap
        scheds = [scheds[int(i * step)] for i in range(cap)]
    if not scheds:
        raise lib.ToolError("no schedules harvested")
    # "take" markers -> actions that are not followed by a take are batched with the next one
    for s_ in scheds:
        steps = []
        raw = s_["steps"]
        for k, st in enumerate(raw):
            if st["a"] == "take":
                continue
            st = dict(st)
            if st["a"] != "run" and (k + 1 >= len(raw) or raw[k + 1]["a"] != "take"):
                st["nt"] = True
            steps.append(st)
        s_["steps"] = steps
    for host in hosts:
        cp, tp = run.path(f"h_{fam}_{host}.cases"), run.path(f"h_{fam}_{host}.trace")
        with open(cp, "w") as f:
            for i, s in enumerate(scheds):
                steps = [dict(st) for st in s["steps"] if not (host == "stream" and st["a"] == "abort")]
                if host != "direct":
                    for st in steps:
                        st.pop("nt", None)     # only the direct host can batch
                if host in ("bridge_bin", "bridge_json"):
                    # the serialized bridge has no notion of dropping a request
                    cutoff = next((k for k, st in enumerate(steps) if st["a"] == "drop"), len(steps))
                    steps = steps[:cutoff]
                c = {"name": f"mc-{fam}-{i}", "host": host, "progs": [progs[s["p"]]], "follow": {}, "steps": steps}
                f.write(json.dumps(c) + "\n")
                if i == 0:
                    run.sample({"source": "TLC behaviour", "host": host, "prog": progs[s["p"]], "steps": steps})
        lib.run_harness(cp, tp)
        spec = "Trace_Command" if host in ("direct", "stream") else "Trace_Core"
        kfs = None if spec == "Trace_Command" else [f["id"] for f in lib.known_findings()["findings"]]
        lib.validate_trace(run, spec, tp, kfs, label=f"replay[{fam}]@{host}")
    return len(scheds)


CORE_INV = ["AppliedOnce", "PerTaskOrder", "NothingDeferred", "QuietWhenIdle", "ExecTasksReleased", "ReadyClosedCore",
            "HandedBackOnce"]


def mc_core_and_replay(run, maxact, hosts, cap=None, mode="core"):
    """exhaustive model checking of the core's event loop (CruxCore.tla) over small apps with follow-up
    commands: every poll order, every order of applying queued events, every shell schedule; then every
    terminal behaviour replayed on the real Core / Bridge and validated"""
    path, apps = family_file(run, "apps1")
    cfg = 'SPECIFICATION MSpec\nCONSTANT Sched = "any"\nCONSTANT KFS = {}\n'
    cfg += "".join(f"INVARIANT {i}\n" for i in CORE_INV) + "INVARIANT EmitSched\nCHECK_DEADLOCK FALSE\n"
    need = ("MEvent", "MResolve", "MDrop", "MAbort", "MApply", "MReturn")
    if mode == "tester":
        need = ("MEvent", "MResolve", "MDrop", "MAbort", "MTesterReturn", "MFeed")
    out = lib.mc(run, "MC_Core", cfg, {"APPS": path, "MAXACT": str(maxact), "HOSTMODE": mode},
                 need_actions=need, label=f"MC_Core[apps1,maxact={maxact},{mode}]")
    scheds = lib.harvest(out)
    if cap and len(scheds) > cap:
        step = len(scheds) / cap
        scheds = [scheds[int(i * step)] for i in range(cap)]
    if not scheds:
        raise lib.ToolError("no schedules harvested from MC_Core")
    kfs = [f["id"] for f in lib.known_findings()["findings"]]
    for host in hosts:
        cp, tp = run.path(f"hc_{host}.cases"), run.path(f"hc_{host}.trace")
        with open(cp, "w") as f:
            for i, s in enumerate(scheds):
                steps = [dict(st) for st in s["steps"]]
                if host in ("bridge_bin", "bridge_json"):
                    cutoff = next((k for k, st in enumerate(steps) if st["a"] == "drop"), len(steps))
                    steps = steps[:cutoff]
                app = apps[s["p"]]
                f.write(json.dumps({"name": f"mcc-{i}", "host": host, "progs": app["progs"], "follow": app["follow"],
                                    "steps": steps}) + "\n")
                if i == 0:
                    run.sample({"source": "TLC behaviour (MC_Core)", "host": host, "app": app, "steps": steps})
        lib.run_harness(cp, tp)
        lib.validate_trace(run, "Trace_Core", tp, kfs, label=f"replay[apps1]@{host}")
    return len(scheds)


def random_round(run, name, seed, n, hosts, family, depth, steps, budget=8, selftest=False, bad=0.0):
    """impl -> spec: seeded random programs and schedules beyond the exhaustive bound"""
    cp, tp = run.path(f"r_{name}.cases"), run.path(f"r_{name}.trace")
    direct = [h for h in hosts if h in ("direct", "stream")]
    core = [h for h in hosts if h not in ("direct", "stream")]
    # the legacy capability API host can only express part of the family: its own generator family
    for lh in ("core_legacy", "tester_legacy"):
        if lh not in core:
            continue
        core.remove(lh)
        lcp, ltp = run.path(f"r_{name}_{lh}.cases"), run.path(f"r_{name}_{lh}.trace")
        lib.gen_cases(lcp, seed + 7, max(n // 3, 50), lh, "legacy", depth, steps, budget)
        lib.run_harness(lcp, ltp)
        lib.validate_trace(run, "Trace_Core", ltp, [f["id"] for f in lib.known_findings()["findings"]],
                           label=f"random[{name}]@{lh}")
    for grp, spec in ((direct, "Trace_Command"), (core, "Trace_Core")):
        if not grp:
            continue
        lib.gen_cases(cp, seed, n, ",".join(grp), family, depth, steps, budget, bad=bad)
        with open(cp) as f:
            first = json.loads(f.readline())
        run.sample({"source": "random", "host": first["host"], "prog": first["progs"][0], "policy": first["policy"]})
        lib.run_harness(cp, tp)
        kfs = None if spec == "Trace_Command" else [f["id"] for f in lib.known_findings()["findings"]]
        lib.validate_trace(run, spec, tp, kfs, label=f"random[{name}]@{'+'.join(grp)}")
        if selftest:
            lib.corrupt_selftest(run, spec, tp, kfs)


def regress_round(run, group):
    """inputs that once exposed a modelling error or a defect: re-executed on the current tree, then validated"""
    src = os.path.join(lib.ROOT, "gen", "regress", f"{group}.cases")
    if not os.path.exists(src):
        return
    tp = run.path(f"regress_{group}.trace")
    lib.run_harness(src, tp)
    spec = "Trace_Command" if group == "command" else "Trace_Core"
    kfs = None if spec == "Trace_Command" else [f["id"] for f in lib.known_findings()["findings"]]
    lib.validate_trace(run, spec, tp, kfs, label=f"regress[{group}]")


PROTO_CONSTS = "CONSTANT Keys = {0}\n"


def proto_mc(run):
    """ExecProtocol.tla against every environment (small slab, bounded steps): NoLostWake, QuiescentWhenSettled"""
    cfg = ("SPECIFICATION MSpec\nCONSTANT Keys = {0, 1, 2}\nCONSTANT MaxSteps = %d\nCONSTANT MaxQueue = 4\n"
           "INVARIANT TypeOK\nINVARIANT NoLostWake\nINVARIANT QuiescentWhenSettled\nCHECK_DEADLOCK FALSE\n"
           % (13 if run.quick else 16))
    lib.mc(run, "MC_Proto", cfg, {}, need_actions=("MNext",), label="MC_Proto[3 keys]")
    # ... and for any number of steps: NoLostWake as an inductive invariant, discharged by Apalache
    t0 = lib.time.time()
    for what, args in (("base", ["--init=Init0", "--length=0"]), ("step", ["--init=IndInit", "--length=1"])):
        rc, out = lib.sh(["apalache-mc", "check", "--cinit=ConstInit", "--inv=IndInv",
                          "--out-dir=" + os.path.join(lib.WORK, "apalache")] + args + ["Ind_Proto.tla"],
                         cwd=lib.SPEC, timeout=900)
        if "The outcome is: NoError" not in out:
            raise lib.ToolError(f"Apalache did not discharge the inductive invariant ({what}):\n" + out[-2000:])
    run.stages.append({"stage": "Ind_Proto[NoLostWake inductive, 3 keys, queue <= 4]", "kind": "apalache-inductive",
                       "outcome": "NoError (base case and induction step)", "wall_s": round(lib.time.time() - t0, 1)})


def proto_suite(run, selftest=False):
    """impl -> spec on executions nobody wrote for this purpose: the repository's own tests, recorded at the
    executor's linearisation points and validated against ExecProtocol.tla (one case per Command instance)"""
    cases = lib.record_suite(run)
    lib.validate_simple(run, "Trace_Proto", cases, consts=PROTO_CONSTS, marker='"e":"new"',
                        label="protocol[repository test suite]")
    if selftest:
        # binding self-test: flip the recorded `woken` flag of one poll that was woken; must be rejected
        lines = open(cases).read().splitlines()
        for i, l in enumerate(lines):
            if '"e":"polled"' in l and l.endswith('"d":1}'):
                lines[i] = l[:-len('"d":1}')] + '"d":0}'
                break
        else:
            raise lib.ToolError("protocol self-test found nothing to corrupt")
        s = max(j for j in range(i + 1) if '"e":"new"' in lines[j])
        e = next((j for j in range(i + 1, len(lines)) if '"e":"new"' in lines[j]), len(lines))
        bad = run.path("proto.corrupt")
        with open(bad, "w") as f:
            f.write("\n".join(lines[s:e]) + "\n")
        rc, o = lib.tlc("Trace_Proto", lib.SIMPLE_CFG.format(consts=PROTO_CONSTS), {"TRACE": bad}, dfs=True, tag="st")
        if "REJECTED_AT" not in o:
            raise lib.ToolError("Trace_Proto accepted a corrupted trace")
        run.stages.append({"stage": "binding-selftest", "spec": "Trace_Proto", "corruptions_rejected": 1})


LOOP_CONSTS = "CONSTANT Keys = {0}\n"


def loop_mc(run):
    """ExecLoop.tla (the core's own executor: run_all) against every environment within small bounds:
    QuiescentAtDone -- when run_all returns no spawned future waits and no queued key names a task"""
    cfg = ("SPECIFICATION MSpec\nCONSTANT Keys = {0, 1, 2}\nCONSTANT MaxPending = %d\nCONSTANT MaxQueue = %d\n"
           "INVARIANT TypeOK\nPROPERTY QuiescentAtDone\nCHECK_DEADLOCK FALSE\n" % ((2, 3) if run.quick else (3, 4)))
    lib.mc(run, "MC_Loop", cfg, {}, need_actions=("Begin", "Take", "ToReady", "Pop", "Polled", "Loop", "Done"),
           label="MC_Loop[3 keys]")
    # ... and for any number of steps, waiting futures and queue contents: an inductive invariant, by Apalache
    t0 = lib.time.time()
    for what, args in (("base", ["--init=LInit", "--length=0"]), ("step", ["--init=IndInit", "--length=1"])):
        rc, out = lib.sh(["apalache-mc", "check", "--cinit=ConstInit", "--inv=IndInv",
                          "--out-dir=" + os.path.join(lib.WORK, "apalache")] + args + ["Ind_Loop.tla"],
                         cwd=lib.SPEC, timeout=900)
        if "The outcome is: NoError" not in out:
            raise lib.ToolError(f"Apalache did not discharge ExecLoop's inductive invariant ({what}):\n" + out[-2000:])
    run.stages.append({"stage": "Ind_Loop[QuiescentAtDone inductive, 3 keys, queue <= 4 generated]", "kind": "apalache-inductive",
                       "outcome": "NoError (base case and induction step)", "wall_s": round(lib.time.time() - t0, 1)})


def loop_suite(run, selftest=False):
    """impl -> spec: the run_all events the recorder logged while the repository's own tests ran (record_suite
    must have run in this check), one case per executor, validated against ExecLoop.tla"""
    raw = os.path.join(lib.WORK, "proto", f"{run.prop}.raw")
    cases = os.path.join(lib.WORK, "proto", f"{run.prop}.xcases")
    rc, summary = lib.sh(["python3", os.path.join(lib.ROOT, "gen", "xloop.py"), raw, cases], check=True)
    info = json.loads(summary.strip().splitlines()[-1])
    if info["executors"] == 0:
        raise lib.ToolError("no executor events were recorded (are the hooks of /repo commit for ExecLoop there?)")
    run.stages.append({"stage": "record[repository test suite, run_all]", "kind": "recording", **info})
    lib.validate_simple(run, "Trace_Loop", cases, consts=LOOP_CONSTS, marker='"e":"xnew"',
                        label="run_all[repository test suite]")
    if selftest:
        # binding self-test: an xdone that claims a future was still waiting must be rejected
        lines = open(cases).read().splitlines()
        i = next((k for k, l in enumerate(lines) if '"e":"xdone"' in l), None)
        if i is None:
            raise lib.ToolError("run_all self-test found nothing to corrupt")
        d = json.loads(lines[i])
        d["a"] += 1
        lines[i] = json.dumps(d, separators=(",", ":"))
        s = max(j for j in range(i + 1) if '"e":"xnew"' in lines[j])
        e = next((j for j in range(i + 1, len(lines)) if '"e":"xnew"' in lines[j]), len(lines))
        bad = run.path("loop.corrupt")
        with open(bad, "w") as f:
            f.write("\n".join(lines[s:e]) + "\n")
        rc, o = lib.tlc("Trace_Loop", lib.SIMPLE_CFG.format(consts=LOOP_CONSTS), {"TRACE": bad}, dfs=True, tag="st")
        if "REJECTED_AT" not in o:
            raise lib.ToolError("Trace_Loop accepted a corrupted trace")
        run.stages.append({"stage": "binding-selftest", "spec": "Trace_Loop", "corruptions_rejected": 1})


def registry_stress(run, n, answers, seed):
    """RoutedById at a scale the full model cannot afford: one flat program with n one-shot requests through both
    bridges, answered in a seeded random order; the trace is validated against Registry.tla (ids stay bound to
    the request they were handed out for, answers reach the task that asked, occupancy = entries still needed)"""
    import random
    rng = random.Random(seed)
    cs, tids, nid = [], [], 10
    for i in range(n):
        cs.append({"tid": nid, "c": {"k": "chain", "id": nid + 1, "tid": nid + 2, "root": {"k": "req", "tag": 1, "val": 1},
                                     "stages": [], "sink": {"tag": 2}}})
        tids.append(nid + 2)
        nid += 3
    prog = {"k": "all", "id": 1, "tid": 2, "cs": cs}
    order = tids[:]
    rng.shuffle(order)
    # a second wave after the first has been (mostly) answered: new registrations while old ids are still out
    steps = [{"a": "run", "p": 0}] + [{"a": "resolve", "o": [1, t, 0], "val": 1} for t in order[:answers]]
    steps += [{"a": "run", "p": 1}]
    rest = order[answers:] + [None] * 0
    steps += [{"a": "resolve", "o": [1, t, 0], "val": 2} for t in rest]
    small = {"k": "all", "id": 1, "tid": 2, "cs": cs[:40]}
    steps += [{"a": "resolve", "o": [answers + 2, t, 0], "val": 3} for t in tids[:40]]
    for host in ("bridge_bin", "bridge_json"):
        cp, tp = run.path(f"reg_{host}.cases"), run.path(f"reg_{host}.trace")
        with open(cp, "w") as f:
            f.write(json.dumps({"name": f"registry-{host}", "host": host, "progs": [prog, small], "follow": {}, "steps": steps}) + "\n")
        lib.run_harness(cp, tp)
        # the registry listing of every line is replaced by its size; every effect gets the arity stored for it
        slim = tp + ".slim"
        with open(slim, "w") as f:
            for l in open(tp):
                d = json.loads(l)
                if d.get("e") == "panic":
                    run.violation("Trace_Registry", [l.strip()], 1, f"registry[{n}]@{host}")
                    break
                if "reg" in d:
                    kinds = {x["id"]: x["kind"] for x in d["reg"]}
                    d["regn"] = len(d.pop("reg"))
                    for e in d.get("effs", []):
                        e["kind"] = kinds.get(e["id"], "absent")
                d.pop("alive", None)
                if d.get("e") == "case":
                    d = {"e": "case", "name": d["name"]}
                if d.get("e") == "end":
                    d = {"e": "end", "drop_ok": d["drop_ok"]}
                f.write(json.dumps(d, separators=(",", ":")) + "\n")
        lib.validate_simple(run, "Trace_Registry", slim, marker='"e":"case"', label=f"registry[{n} outstanding]@{host}")
        os.remove(slim)


def loop_harness(run, name, seed, n):
    """the same validation of run_all on a random round of the harness under the executor-backed hosts
    (Core with the command API and with the capability API, AppTester, the bincode bridge)"""
    raw, cases = run.path(f"x_{name}.raw"), run.path(f"x_{name}.xcases")
    if os.path.exists(raw):
        os.remove(raw)
    for hosts, fam, k in (("core,tester,bridge_bin", "mixed", n), ("core_legacy", "legacy", max(n // 2, 50))):
        cp, tp = run.path(f"x_{name}_{fam}.cases"), run.path(f"x_{name}_{fam}.trace")
        lib.gen_cases(cp, seed, k, hosts, fam, 2, 18, 8)
        jp = tp + ".journal"
        rc, out = lib.sh([lib.BIN, "run", cp, tp], timeout=1800, env={"VERIF_JOURNAL": jp, "CRUX_VERIF_TRACE": raw})
        if rc != 0:
            raise lib.ToolError("harness died while recording run_all events:\n" + out[-1500:])
    rc, summary = lib.sh(["python3", os.path.join(lib.ROOT, "gen", "xloop.py"), raw, cases], check=True)
    run.stages.append({"stage": f"record[harness {name}, run_all]", "kind": "recording",
                       **json.loads(summary.strip().splitlines()[-1])})
    lib.validate_simple(run, "Trace_Loop", cases, consts=LOOP_CONSTS, marker='"e":"xnew"', label=f"run_all[harness {name}]")


def proto_harness(run, name, seed, n):
    """the same protocol validation on the executions of a random round of the harness (thousands of wakes,
    spawns, aborts and evictions per round)"""
    cp, tp, raw = run.path(f"p_{name}.cases"), run.path(f"p_{name}.trace"), run.path(f"p_{name}.raw")
    lib.gen_cases(cp, seed, n, "direct,stream", "mixed", 3, 18, 8)
    lib.run_harness(cp, tp, proto=raw)
    cases = run.path(f"p_{name}.pcases")
    rc, summary = lib.sh(["python3", os.path.join(lib.ROOT, "gen", "proto.py"), raw, cases], check=True)
    run.stages.append({"stage": f"record[harness {name}]", "kind": "recording", **json.loads(summary.strip().splitlines()[-1])})
    lib.validate_simple(run, "Trace_Proto", cases, consts=PROTO_CONSTS, marker='"e":"new"', label=f"protocol[harness {name}]")


def report_known(run):
    """print KNOWN-FINDING lines for the findings of this property that the run actually hit"""
    hits = {"D9": run.kfhits[0], "D10": run.kfhits[1], "D12": run.kfhits[2]}
    for f in lib.kf_for(run.prop):
        if hits.get(f["id"], 0) > 0:
            run.known(f)


BASE_ASSUME = [
    "programs are those of the JSON command language of DESIGN.md 2.3, built through the public crux API",
    "harness built with debug-assertions off: Core::resolve's debug_assert would turn a rejected resolution into a panic",
    "single-threaded callers (interleavings are C08's subject)",
]


def laws(run, maxact):
    """C04's laws on the reference semantics: two CruxCommand instances side by side (MC_Laws.tla)"""
    path, pairs = family_file(run, "laws1")
    cfg = "SPECIFICATION LSpec\nINVARIANT LawHolds\nCHECK_DEADLOCK FALSE\n"
    # (no -coverage here: with the instantiated modules TLC's coverage bookkeeping exhausts the heap; that every
    # kind of shell action is taken was checked once by hand, DESIGN.md 11.1)
    lib.mc(run, "MC_Laws", cfg, {"PAIRS": path, "MAXACT": str(maxact)}, coverage=False,
           label=f"MC_Laws[{len(pairs)} pairs,maxact={maxact}]")
    run.extra["laws"] = sorted({p["law"] for p in pairs})


def c04(run):
    run.assumptions = BASE_ASSUME + ["at most one then_stream per chain; on a stream root only pure maps come before it"]
    q = run.quick
    mc_and_replay(run, "cmd1", 5 if q else 7, ALL_INV, ["direct", "stream"], cap=4000 if q else 40000)
    # then_stream: RequestBuilder's (sequential) and StreamBuilder's (flatten_unordered, modelled with its
    # ready-to-run queue and wrapped wakers)
    mc_and_replay(run, "flat1", 5 if q else 6, ALL_INV, ["direct", "stream"], cap=2500 if q else 40000)
    # the laws, on the reference semantics itself (conformance of the code to it is what the rest establishes)
    laws(run, 4 if q else 5)
    random_round(run, "cmd", run.seed, 800 if q else 8000, ["direct", "stream"], "cmd", 3 if q else 4, 16,
                 selftest=True)
    random_round(run, "mixed", run.seed + 1, 400 if q else 4000, ["direct"], "mixed", 2 if q else 3, 16)


def c07(run):
    run.assumptions = BASE_ASSUME + [
        "joins are join_all/select_all over <= 3 leaves; of the combinators that store the outer waker only "
        "flatten_unordered (then_stream) is in the family (FuturesUnordered by itself, join_all above 30 futures are not)",
        "task-to-task channels are unbounded futures mpsc channels with one receiving task each; a task that waits on a "
        "channel somebody can still send on is outside the done-when-settled guarantee (it does not wait on the shell)"]
    q = run.quick
    mc_and_replay(run, "scripts", 7 if q else 8, ALL_INV, ["direct"], cap=4000 if q else 40000)
    # every script of <= 2 (quick) / <= 3 (thorough) compound instructions over a 12-letter alphabet
    # (scripts3 at 6 actions is 20 M states; at 7 it does not finish in an hour)
    mc_and_replay(run, "scripts2" if q else "scripts3", 6, ALL_INV, ["direct"], cap=4000 if q else 60000)
    random_round(run, "script", run.seed, 1000 if q else 10000, ["direct", "stream"], "script", 2, 18,
                 budget=8 if q else 10, selftest=True)
    # task-to-task channels: pipes up and down, select / join over a channel, an evicted or aborted sender
    mc_and_replay(run, "chan1", 6, ALL_INV, ["direct", "stream", "core"], cap=2000 if q else 20000)
    # flatten_unordered keeps the waker it was polled with: the model-checked (strict) model evicts a task
    # stuck in it, the code does not (known deviation D12, admitted by the trace specification and counted)
    mc_and_replay(run, "flat1", 5 if q else 6, ALL_INV, ["direct", "core"], cap=2500 if q else 40000)
    # the executor protocol itself (eviction test, woken flag, queue discipline), on executions of the
    # repository's own tests and of a harness round
    proto_mc(run)
    proto_suite(run, selftest=True)
    proto_harness(run, "mixed", run.seed + 11, 600 if q else 6000)
    report_known(run)


def c06(run):
    run.assumptions = BASE_ASSUME
    q = run.quick
    mc_and_replay(run, "scripts", 6 if q else 8, ALL_INV, ["direct", "core"], cap=3000 if q else 30000)
    mc_and_replay(run, "scripts2" if q else "scripts3", 6 if q else 5, ALL_INV, ["direct"], cap=3000 if q else 40000)
    mc_and_replay(run, "cmd1", 5 if q else 6, ALL_INV, ["direct", "core"], cap=3000 if q else 30000)
    # abort / drop heavy random schedules (gencases draws p_abort, p_drop per case)
    random_round(run, "cancel", run.seed, 1000 if q else 10000, ["direct", "core"], "mixed", 3, 18, selftest=True)


def c02(run):
    run.assumptions = BASE_ASSUME + ["bridge hosts answer only ids that are outstanding (C12 scope)"]
    q = run.quick
    mc_and_replay(run, "scripts", 6 if q else 8, ALL_INV, ["direct", "core", "bridge_bin", "bridge_json"],
                  cap=2000 if q else 20000)
    random_round(run, "arity", run.seed, 800 if q else 8000, ["direct", "core", "bridge_bin", "bridge_json"],
                 "mixed", 2, 20, selftest=True)
    # look-alike requests by the thousand through both bridges: an answer under an id reaches the task that asked
    registry_stress(run, 1300 if q else 4000, 1100 if q else 3600, run.seed)
    report_known(run)


def c05(run):
    run.assumptions = BASE_ASSUME + ["the legacy capability API host runs the subset it can express (event, notify, "
                                     "chains, scripts without join handles, all/and as independent tasks)"]
    q = run.quick
    hosts = ["direct", "stream", "core", "bridge_bin", "bridge_json"]
    mc_and_replay(run, "cmd1", 5 if q else 6, ["ReadyClosed"], hosts, cap=1500 if q else 15000)
    mc_and_replay(run, "scripts", 6 if q else 8, ["ReadyClosed"], hosts, cap=1500 if q else 15000)
    random_round(run, "hosts", run.seed, 1000 if q else 10000, hosts, "mixed", 3 if q else 4, 14, selftest=True)
    # the legacy capability API host, on the part of the family it can express
    random_round(run, "legacy", run.seed + 5, 2400 if q else 24000, ["core_legacy"], "mixed", 2, 18, budget=9)
    # AppTester (not one of the hosts the property lists; the host every app's unit tests use): same executor,
    # events handed back instead of applied, fed back later in an order the test chooses
    mc_and_replay(run, "scripts", 5 if q else 7, ["ReadyClosed"], ["tester"], cap=600 if q else 10000)
    mc_core_and_replay(run, 3 if q else 4, ["tester"], cap=800 if q else 20000, mode="tester")
    random_round(run, "tester", run.seed + 9, 400 if q else 6000, ["tester"], "mixed", 3, 20, selftest=True)
    random_round(run, "tester_legacy", run.seed + 10, 600 if q else 6000, ["tester_legacy"], "mixed", 2, 18, budget=9)
    # no wake-up lost inside one executor, whoever hosts it: ExecProtocol.tla on the repository's own tests
    proto_mc(run)
    proto_suite(run, selftest=True)
    report_known(run)


def c01(run):
    run.assumptions = BASE_ASSUME
    q = run.quick
    mc_and_replay(run, "cmd1", 5 if q else 6, ["ReadyClosed"], ["core"], cap=3000 if q else 30000)
    mc_core_and_replay(run, 3 if q else 4, ["core", "bridge_bin"], cap=1500 if q else 20000)
    random_round(run, "core", run.seed, 1200 if q else 12000, ["core", "bridge_bin", "core_legacy"], "mixed", 3, 20,
                 selftest=True)
    regress_round(run, "core")
    # every settle ends with an empty ready queue: ExecProtocol.tla on the repository's own tests
    proto_suite(run)
    # the core's own executor: run_all returns only when nothing runnable is left (ExecLoop.tla: every environment
    # within small bounds, then the run_all events of the repository's own tests and of a harness round)
    loop_mc(run)
    loop_suite(run, selftest=True)
    loop_harness(run, "core", run.seed + 11, 400 if q else 4000)
    report_known(run)


def c03(run):
    run.assumptions = BASE_ASSUME
    q = run.quick
    mc_and_replay(run, "scripts", 6 if q else 8, ["ReadyClosed"], ["core"], cap=3000 if q else 30000)
    mc_core_and_replay(run, 3 if q else 4, ["core", "bridge_json"], cap=1500 if q else 20000)
    random_round(run, "events", run.seed, 1200 if q else 12000, ["core", "bridge_json"], "mixed", 2, 24,
                 selftest=True)
    regress_round(run, "command")
    # events a task emitted are only applied once run_all has returned: run_all must not return early
    loop_harness(run, "events", run.seed + 13, 300 if q else 3000)
    report_known(run)


def c09(run):
    run.assumptions = BASE_ASSUME + [
        "decoding uses the typed Rust FFI types (whether a foreign decoder reads the same bytes is C10)"]
    q = run.quick
    mc_and_replay(run, "cmd1", 5 if q else 6, ["AritySafe"], ["bridge_bin", "bridge_json"], cap=2000 if q else 20000)
    random_round(run, "bridge", run.seed, 1200 if q else 12000, ["bridge_bin", "bridge_json"], "mixed", 3, 22,
                 selftest=True)
    # the registry on its own (Registry.tla), with more requests outstanding than the full model can afford:
    # ids stay bound to the request they were handed out for, answers resume exactly that request
    registry_stress(run, 1300 if q else 4000, 1100 if q else 3600, run.seed + 1)
    report_known(run)


def c13(run):
    run.assumptions = BASE_ASSUME
    q = run.quick
    mc_and_replay(run, "scripts", 6 if q else 8, ["Released"], ["direct", "core", "bridge_bin"],
                  cap=2000 if q else 20000)
    # long histories: many event/response cycles per core
    # (the validator's cost per call grows with the history: 1000 calls per core is what fits the time limit)
    random_round(run, "long", run.seed, 60 if q else 240, ["core", "bridge_bin", "bridge_json"], "mixed", 2,
                 300 if q else 1000, selftest=True)
    mc_and_replay(run, "flat1", 5 if q else 6, ["Released"], ["core"], cap=1500 if q else 20000)
    # slab occupancy after every settle, on the repository's own tests (ExecProtocol.tla)
    proto_suite(run)
    # hand-written inputs: a request that is made and dropped before it is ever polled (select with an earlier
    # leaf ready) must let go of its operation -- through the command API, the capability API and both mixed
    regress_round(run, "core")
    # width instead of length: one command with 260 tasks, 258 of whose requests the shell drops before its next
    # call -- every one of them has to be gone after that call (limits of a few hundred: a poll budget per pass)
    regress_round(run, "wide")
    # many different programs with aborts and drops, medium length (occupancy after every call)
    random_round(run, "broad", run.seed + 9, 900 if q else 9000, ["direct", "core", "bridge_bin"], "mixed", 3, 30)
    # requests spent by an undecodable response must be forgotten as well
    random_round(run, "longbad", run.seed + 3, 40 if q else 200, ["bridge_bin", "bridge_json"], "mixed", 2,
                 200 if q else 800, bad=0.15)
    report_known(run)
    # repeated timer set / clear through the legacy API: the process-wide set of cleared ids
    legacy_timer(run)
    # findings of C13 are reported whenever the deviation was exercised
    for f in lib.kf_for("C13"):
        if {"D9": run.kfhits[0], "D10": run.kfhits[1], "D12": run.kfhits[2]}.get(f["id"], 0) > 0:
            run.known(f)


def c12(run):
    run.level = "fault_enumeration"
    run.assumptions = BASE_ASSUME + [
        "responses are offered only for ids that are outstanding (an unknown id panics by a documented FIXME and is outside the property)",
        "byte strings that the deserializer accepts (trailing bytes after a complete value, a changed payload) are valid inputs: they are sent as such and have to be taken for the value they decode to (response values restricted to 1..10^6, the model's integers)",
        "per-call bounds: 1 s wall clock and 2 MiB + 64 bytes per input byte of peak allocation (serde pre-allocates at most 1 MiB for a sequence whose declared length is huge)"]
    q = run.quick
    try:
        random_round(run, "bad", run.seed, 1500 if q else 15000, ["bridge_bin", "bridge_json"], "mixed", 2, 30,
                     selftest=True, bad=0.35)
    except lib.HarnessCrash as e:
        # the process itself died (abort on allocation failure, stack overflow): that is the violation
        if e.journal and e.journal.get("about_to", {}).get("a", "").startswith("bad_"):
            run.violations += 1
            p = os.path.join(lib.WORK, "replay", f"{run.prop}-{run.violations}.json")
            with open(p, "w") as f:
                json.dump({"kind": "crash", "property": run.prop, "what": str(e)[:500], "case": e.journal["case"],
                           "fatal_step": e.journal["about_to"]}, f, indent=1)
            print(f"VIOLATION property={run.prop} replay={p}")
            print("  the process died while handling malformed input: " + json.dumps(e.journal["about_to"])[:300])
            return
        raise
    # count the malformed inputs actually offered
    nbad = kinds = 0
    seen = set()
    with open(run.path("r_bad.trace")) as f:
        for l in f:
            if '"e":"bad_' in l:
                nbad += 1
                r = json.loads(l)
                seen.add((r["e"], r["n"], r["res"]))
                if len(run.samples) < 4:
                    run.sample({"bad_input_line": r})
    run.extra.update({"evaluations": nbad, "distinct_nontrivial": len(seen),
                      "rule": "malformed byte strings (random / truncated / bit-flipped / length-corrupted / "
                              "JSON-damaged variants of valid encodings) offered as events and as responses to "
                              "outstanding requests at random points of random histories; distinct = distinct "
                              "(kind, length, outcome) triples; each followed by the rest of the history, which "
                              "must still match the specification (the twin that never saw the input)"})
    if nbad < 50:
        raise lib.ToolError("too few malformed inputs were generated")
    report_known(run)


MT_CFG = """SPECIFICATION {spec}
CONSTANTS Threads = {{{threads}}}
FixedOrder = {fixed}
Scenario = "{scn}"
INVARIANT NeverTornDown
INVARIANT AllDelivered
INVARIANT NoDuplicates
{extra}CHECK_DEADLOCK FALSE
"""


def c08(run):
    run.assumptions = [
        "library internals (futures mpsc, AtomicWaker, crossbeam channels, std Mutex/RwLock sections without a "
        "schedule point) are atomic steps, in the model and under the forced schedules alike",
        "sequential consistency between schedule points (weak-memory reorderings are not explored)",
        "scenarios: k threads delivering items of one stream through Bridge::handle_response (modelled step by "
        "step in CruxMT.tla); two threads resolving the two requests of one join through Core::resolve plus an "
        "event; two tasks of one command (all) resolved by two threads (forced interleavings and free-running stress)",
        "harness built with debug-assertions off"]
    q = run.quick
    # 1. the interleaving-level model, exhaustively
    for scn in ("stream", "all"):
        for n in ([2] if q else [2, 3]):
            th = ", ".join(str(i) for i in range(1, n + 1))
            lib.mc(run, "CruxMT", MT_CFG.format(spec="Spec", threads=th, fixed="TRUE", scn=scn,
                                                extra="INVARIANT NoStuck\n"), {},
                   workers=12, timeout=1500,
                   need_actions=("CtCount", "CwDrop", "ExRun", "CoUpdate", "ExRemove", "ExPutback"),
                   label=f"CruxMT[{scn}, {n} callers]")
    # the model must be able to express the eviction race (sensitivity): with the reads in the
    # other order TLC has to find the torn-down subscription
    rc, out = lib.tlc("CruxMT", MT_CFG.format(spec="Spec", threads="1, 2", fixed="FALSE", scn="stream", extra=""), {}, workers=4,
                      timeout=300, tag="sens")
    if "Invariant NeverTornDown is violated" not in out:
        raise lib.ToolError("CruxMT no longer finds the eviction race with the unrepaired read order (model lost sensitivity)")
    run.stages.append({"stage": "CruxMT sensitivity", "kind": "tlc", "result": "race found with FixedOrder=FALSE"})
    # 2. TLC behaviours -> thread-choice schedules -> real threads
    cases = [{"name": "d1-tlc-counterexample", "scenario": "stream_bridge", "threads": 2,
              "sched": [1] * 13 + [2, 1, 2, 2, 2, 2, 1]},
             {"name": "round-robin", "scenario": "stream_bridge", "threads": 2, "sched": []},
             {"name": "round-robin-3", "scenario": "stream_bridge", "threads": 3, "sched": []}]
    for scn, n, num in (("stream", 2, 1500 if q else 20000), ("stream", 3, 500 if q else 20000),
                        ("all", 2, 1000 if q else 20000), ("all", 3, 300 if q else 10000)):
        th = ", ".join(str(i) for i in range(1, n + 1))
        out = lib.tlc_simulate("MC_MT", MT_CFG.format(spec="MSpec", threads=th, fixed="TRUE", scn=scn,
                                                      extra="INVARIANT EmitSched\n"),
                               num, 600, run.seed + n, timeout=1200)
        seen = set()
        for m in lib.re.finditer(r'<<\s*"SCHED",\s*"(\[[^"]*\])"\s*>>', out, lib.re.S):
            if m.group(1) in seen:
                continue
            seen.add(m.group(1))
            cases.append({"name": f"tlc-sim-{scn}-{n}-{len(seen)}",
                          "scenario": "stream_bridge" if scn == "stream" else "flat_core", "threads": n,
                          "sched": json.loads(m.group(1))})
        if len(seen) < num // 4:
            raise lib.ToolError("too few schedules harvested from TLC simulation")
    cp, op = run.path("mt.cases"), run.path("mt.out")
    with open(cp, "w") as f:
        for c in cases:
            f.write(json.dumps(c) + "\n")
    rc, out = lib.sh([lib.BIN, "mt", cp, op], timeout=3000)
    if rc != 0:
        raise lib.ToolError("mt harness failed: " + out[-2000:])
    forced = exact = 0
    points = set()
    distinct = set()
    for l in open(op):
        r = json.loads(l)
        forced += 1
        if r.get("stuck") is not None:
            raise lib.ToolError(f"forced schedule could not make progress: {l[:500]}")
        distinct.add(json.dumps(r.get("executed")))
        if r.get("skipped", 1) == 0:
            exact += 1
        for h in r.get("points", []):
            points.update(h)
        if not r["ok"]:
            mt_violation(run, r)
        elif len(run.samples) < 2:
            run.sample({"forced_schedule": r["executed"][:60], "points_thread1": r["points"][0][:40], "agg": r["agg"]})
    run.traces += forced
    run.stages.append({"stage": "forced TLC schedules", "kind": "forced-interleavings", "runs": forced,
                       "distinct_interleavings": len(distinct), "schedules_followed_without_skips": exact,
                       "point_names_seen": sorted(points)})
    # 3. systematic preemption-bounded enumeration on the real threads (both scenarios)
    for scn, k, p, stride in (("stream_bridge", 2, 2 if q else 3, 1), ("join_core", 3, 2, 1 if not q else 3),
                              ("all_core", 2, 2, 1 if not q else 2), ("flat_core", 2, 2, 1 if not q else 3),
                              ("stream_bridge", 3, 1 if q else 2, 1)):
        op2 = run.path(f"mtenum_{scn}_{k}.out")
        rc, out = lib.sh([lib.BIN, "mtenum", scn, str(k), str(p), op2, str(stride)], timeout=6000)
        if rc != 0:
            raise lib.ToolError("mtenum failed: " + out[-2000:])
        for l in open(op2):
            r = json.loads(l)
            if r.get("summary"):
                run.traces += r["schedules"]
                run.stages.append({"stage": f"preemption-bounded[{scn},{k} threads,<= {p}]",
                                   "kind": "forced-interleavings", "schedules": r["schedules"],
                                   "distinct_interleavings": r["distinct_interleavings"], "bad": r["bad"]})
            elif not r.get("ok", True):
                mt_violation(run, r)
    # 3b. the same scenarios free-running on real threads (no controller): race windows that lie
    #     inside one segment between two schedule points are only reachable this way
    for scn, k in (("stream_bridge", 2), ("join_core", 2), ("all_core", 2), ("flat_core", 2), ("stream_bridge", 3),
                   ("all_core", 3)):
        iters = 8000 if q else 250000
        op3 = run.path(f"mtstress_{scn}_{k}.out")
        rc, out = lib.sh([lib.BIN, "mtstress", scn, str(k), str(iters), op3], timeout=6000)
        if rc in (101, 134, 139, -6, -11):
            # the harness process died inside the code under test (a panic outside any catch, an abort): that is
            # an outcome of this scenario, not trouble of the tooling
            run.violations += 1
            p = os.path.join(lib.WORK, "replay", f"{run.prop}-{run.violations}.json")
            with open(p, "w") as f:
                json.dump({"kind": "mtstress", "property": run.prop, "scenario": scn, "threads": k, "iterations": iters,
                           "died": out[-1500:]}, f, indent=1)
            print(f"VIOLATION property={run.prop} replay={p}")
            print(f"  free-running {scn} with {k} threads: the process died (exit {rc}): " + out[-300:].replace("\n", " | "))
            continue
        if rc != 0:
            raise lib.ToolError("mtstress failed: " + out[-2000:])
        r = json.loads(open(op3).readline())
        run.traces += r["iterations"]
        run.stages.append({"stage": f"free-running stress[{scn},{k} threads]", "kind": "real-thread-stress",
                           "iterations": r["iterations"], "bad": r["bad"]})
        if r["bad"]:
            run.violations += 1
            p = os.path.join(lib.WORK, "replay", f"{run.prop}-{run.violations}.json")
            with open(p, "w") as f:
                json.dump({"kind": "mtstress", "property": run.prop, "scenario": scn, "threads": k, "iterations": iters,
                           "bad_iterations": r["bad"], "first_bad": r["first_bad"], "sequential_reference": r["ref_agg"]},
                          f, indent=1)
            print(f"VIOLATION property={run.prop} replay={p}")
            print(f"  {r['bad']} of {iters} free-running iterations of {scn} ended in a state no sequential order produces: "
                  + json.dumps(r["first_bad"])[:300])
    # 4. the sequential reference is itself a behaviour of the sequential spec
    seq = [{"name": "mt-seq-ref", "host": "bridge_bin",
            "progs": [{"k": "chain", "id": 1, "tid": 2, "root": {"k": "stream", "tag": 1, "val": 1}, "stages": [],
                       "sink": {"tag": 2}}], "follow": {},
            "steps": [{"a": "run", "p": 0}] + [{"a": "resolve", "o": [1, 2, 0], "val": 10 + i} for i in range(3)]
            + [{"a": "resolve", "o": [1, 2, 0], "val": 99}, {"a": "noop"}]}]
    cp2, tp2 = run.path("seq.cases"), run.path("seq.trace")
    with open(cp2, "w") as f:
        for c in seq:
            f.write(json.dumps(c) + "\n")
    lib.run_harness(cp2, tp2)
    lib.validate_trace(run, "Trace_Core", tp2, [f["id"] for f in lib.known_findings()["findings"]],
                       label="sequential reference")


def mt_violation(run, r):
    run.violations += 1
    p = os.path.join(lib.WORK, "replay", f"{run.prop}-{run.violations}.json")
    with open(p, "w") as f:
        json.dump({"kind": "mt", "property": run.prop, "case": r.get("case"), "observed": r.get("agg"),
                   "sequential_reference": r.get("ref_agg"), "points": r.get("points"), "stuck": r.get("stuck")},
                  f, indent=1)
    print(f"VIOLATION property={run.prop} replay={p}")
    print("  concurrent outcome differs from every sequential order: " + json.dumps(r.get("agg"))[:400])


def table_check(run, spec, invariants, env, nconc, label, consts=""):
    """TLC enumerates a decision table / small state machine completely and prints every row with the
    outcome the specification computes; each row is executed on the real crate (nconc concrete
    members per abstract class); returns the list of failing records"""
    cfg = "SPECIFICATION Spec\n" + consts + "".join(f"INVARIANT {i}\n" for i in invariants) + \
          "INVARIANT Emit\nCHECK_DEADLOCK FALSE\n"
    out = lib.mc(run, spec, cfg, env, workers=8, timeout=1500, label=label)
    cases = []
    seen = set()
    for m in lib.re.finditer(r'<<\s*"CASE",\s*"((?:[^"\\]|\\.)*)"\s*>>', out, lib.re.S):
        s = m.group(1)
        if s in seen:
            continue
        seen.add(s)
        cases.append(json.loads(json.loads('"' + s + '"')))
    if not cases:
        raise lib.ToolError(f"{spec}: no cases printed")
    cp, op = run.path(f"{label}.cases"), run.path(f"{label}.out")
    with open(cp, "w") as f:
        for c in cases:
            f.write(json.dumps(c) + "\n")
    run.sample({"source": f"row of {spec}", "case": {k: cases[len(cases) // 3][k] for k in ("in", "out")}})
    rc, o = lib.sh([lib.BIN, "caps", cp, op, str(nconc)], timeout=3000)
    if rc != 0:
        raise lib.ToolError(f"caps harness failed on {spec}: " + o[-2000:])
    fails = []
    summary = None
    for l in open(op):
        r = json.loads(l)
        if r.get("summary"):
            summary = r
        else:
            fails.append(r)
    run.traces += summary["executions"]
    run.stages.append({"stage": label, "kind": "table-rows-executed", "spec": spec, "rows": len(cases),
                       "executions": summary["executions"], "mismatches": summary["bad"],
                       "known_deviation_hits": summary["known"]})
    return cases, fails, summary


def report_table_fails(run, spec, fails, limit=5):
    kfs = {f["id"]: f for f in lib.known_findings()["findings"]}
    shown = 0
    for r in fails:
        if r.get("known") and r["known"] in kfs and run.prop in kfs[r["known"]]["properties"]:
            run.known(kfs[r["known"]])
            continue
        if shown < limit:
            run.violations += 1
            p = os.path.join(lib.WORK, "replay", f"{run.prop}-{run.violations}.json")
            with open(p, "w") as f:
                json.dump({"kind": "table", "property": run.prop, "spec": spec, "case": r}, f, indent=1)
            print(f"VIOLATION property={run.prop} replay={p}")
            print("  expected " + json.dumps(r["expected"])[:300])
            print("  observed " + json.dumps(r["observed"])[:300])
            shown += 1
        else:
            run.violations += 1


def c17(run):
    run.assumptions = ["responses are of the kind that matches the call (a mismatched kind is a documented "
                       "developer error that panics)",
                       "keys / values / cursors / messages are drawn from pools containing empty, unicode, binary, "
                       "very long and extreme members of each class (3 per class quick, 3 thorough: the pools are small)"]
    cases, fails, _ = table_check(run, "KeyValue", ["AbsentIsNotEmpty"], {}, 3, "KeyValue")
    report_table_fails(run, "KeyValue", fails)


def c14(run):
    run.assumptions = ["header names and values are ASCII (http-types rejects others at the app's call site)",
                       "the expected URL is url::Url::parse(input) rendered -- the documented normal form; "
                       "URL and body re-encoding questions are sampled inside each abstract class (pools in caps.rs)"]
    cases, fails, _ = table_check(run, "HttpBuilder", ["ContentTypeRule"], {}, 2 if run.quick else 3, "HttpBuilder")
    report_table_fails(run, "HttpBuilder", fails)


def c15(run):
    run.assumptions = ["bodies, content types and header lists are drawn from pools per abstract class (caps.rs)",
                       "status codes: full product of the other dimensions for 21 representative statuses; every "
                       "status 0..65535 individually for one default combination (thorough; quick: product only plus "
                       "a stride of the sweep)"]
    cases, fails, _ = table_check(run, "HttpOutcome", ["ExactlyOneClass", "ErrorsOnlyFor4xx5xx", "ShellErrorsPassThrough"],
                                  {"MODE": "product"}, 2 if run.quick else 3, "HttpOutcome-product")
    report_table_fails(run, "HttpOutcome", fails)
    if not run.quick:
        cases, fails, _ = table_check(run, "HttpOutcome", ["ExactlyOneClass"], {"MODE": "sweep"}, 1, "HttpOutcome-sweep")
        report_table_fails(run, "HttpOutcome", fails)


def c16(run):
    run.assumptions = ["client-level middleware cannot be installed through the public API at this commit "
                       "(Client::with is pub(crate) and unused): the client stack is empty",
                       "redirect graphs are chains of <= 4 hops from the start URL (absolute / relative-dir / "
                       "relative-file / missing / invalid Location), attempt limits 0..3, stacks of <= 3 middleware"]
    cases, fails, _ = table_check(run, "HttpMiddleware", ["BodyOnce", "BoundedProbes"], {}, 1, "HttpMiddleware")
    report_table_fails(run, "HttpMiddleware", fails)


def c11(run):
    run.assumptions = [
        "determinism half: histories over an app that uses HTTP with 3-4 and with 40 headers, some multi-valued "
        "(both APIs), key-value and time "
        "operations (both APIs) and render, driven through the bincode bridge; digests of every returned batch "
        "(timer ids renamed in order of first appearance) and of the view are compared between repeated runs in "
        "one process and between separate processes -- an exploration by sampling, not an exhaustive decision",
        "that the modelled runtime is a function of its input history is what the fifo-refined CruxCore.tla "
        "shows (every validated trace has out-degree 1); divergence can then only come from outside the model "
        "(hash order, addresses, clocks), which is what the differential samples"]
    cases, fails, _ = table_check(run, "ValueEq", ["Reflexive"], {}, 2, "ValueEq")
    report_table_fails(run, "ValueEq", fails)
    # the determinism differential
    import random
    rng = random.Random(run.seed)
    nh = 150 if run.quick else 1500
    hp = run.path("histories.ndjson")
    with open(hp, "w") as f:
        for _ in range(nh):
            steps = []
            for _ in range(rng.randint(3, 14)):
                if rng.random() < 0.5:
                    steps.append({"s": "ev", "k": rng.randrange(9)})
                else:
                    steps.append({"s": "resp", "i": rng.randrange(6)})
            # a command-API timer whose answer and whose clear() both arrive before it is polled again: which one
            # wins is a function of the history (here: of nothing else than their being both there)
            for _ in range(rng.choice([0, 1, 3])):
                steps.insert(rng.randint(0, len(steps)), {"s": "race", "k": rng.randrange(9), "clear_first": rng.random() < 0.5})
            f.write(json.dumps(steps) + "\n")
    outs = []
    nproc = 4 if run.quick else 8
    for k in range(nproc):
        op = run.path(f"det{k}.out")
        rc, o = lib.sh([lib.BIN, "det", hp, op, "2"], timeout=1200)
        if rc != 0:
            raise lib.ToolError("det harness failed: " + o[-2000:])
        outs.append([json.loads(l) for l in open(op)])
    diffs = 0
    hist = [json.loads(l) for l in open(hp)]
    for i in range(nh):
        variants = []
        for k in range(nproc):
            for r in outs[k][i]["runs"]:
                variants.append(r)
        ref = {"batches": variants[0]["batches"], "view": variants[0]["view"]}
        for vnum, r in enumerate(variants[1:]):
            if {"batches": r["batches"], "view": r["view"]} != ref:
                diffs += 1
                if diffs <= 3:
                    # locate the first differing batch for the report
                    j = next((j for j, (a, b) in enumerate(zip(variants[0]["batches"], r["batches"])) if a != b), None)
                    run.violations += 1
                    p = os.path.join(lib.WORK, "replay", f"{run.prop}-{run.violations}.json")
                    with open(p, "w") as f:
                        json.dump({"kind": "det", "property": run.prop, "history": hist[i],
                                   "first_differing_call": j,
                                   "run_a": variants[0]["material"][j] if j is not None and j < len(variants[0]["material"]) else None,
                                   "run_b": r["material"][j] if j is not None and j < len(r["material"]) else None,
                                   "view_differs": variants[0]["view"] != r["view"]}, f, indent=1)
                    print(f"VIOLATION property={run.prop} replay={p}")
                    print(f"  two replays of one history differ at call {j}")
                else:
                    run.violations += 1
                break
    run.traces += nh * nproc * 2
    # the same for the runtime itself: histories of the command-language app in which one step wakes several
    # parked commands at once (case-wide channels), executed in separate processes; the recorded traces (every
    # returned batch in order, the view after every call) must be identical byte for byte
    cp = run.path("det_dsl.cases")
    lib.gen_cases(cp, run.seed + 21, 250 if run.quick else 2500, "core,bridge_bin", "mixed", 2, 24,
                  env={"GEN_PGCH": "0.35", "GEN_PCH": "0.05"})
    # hand-written: six commands parked on six case-wide channels, a seventh pokes them all in one step
    waiter = lambda i: {"k": "async", "id": 1, "tid": 2, "code": [
        {"op": "grecv", "g": i, "dst": 1}, {"op": "emit", "tag": 10 + i, "src": {"r": 1}},
        {"op": "req", "tag": 20 + i, "src": {"r": 1}, "dst": 2}, {"op": "emit", "tag": 30 + i, "src": {"r": 2}}]}
    poker = {"k": "async", "id": 1, "tid": 2, "code": [{"op": "gsend", "g": i, "src": {"c": i}} for i in range(1, 7)]}
    with open(cp, "a") as f:
        for rep_ in range(8):
            f.write(json.dumps({"name": f"wake-six-{rep_}", "host": "core" if rep_ % 2 == 0 else "bridge_bin",
                                "progs": [waiter(i) for i in range(1, 7)] + [poker], "follow": {}, "legacy": False,
                                "steps": [{"a": "run", "p": i} for i in range(7)] + [{"a": "noop"}]}) + "\n")
    traces = []
    for k in range(3 if run.quick else 5):
        tp = run.path(f"det_dsl{k}.trace")
        lib.run_harness(cp, tp)
        traces.append(open(tp).read().splitlines())
    for k in range(1, len(traces)):
        for ln, (a, b) in enumerate(zip(traces[0], traces[k])):
            if a != b:
                run.violations += 1
                lines = traces[0]
                s_ = max(j for j in range(ln + 1) if '"e":"case"' in lines[j])
                p = os.path.join(lib.WORK, "replay", f"{run.prop}-{run.violations}.json")
                with open(p, "w") as f:
                    e_ = next((j for j in range(ln, len(lines)) if '"e":"end"' in lines[j]), None)
                    json.dump({"kind": "det-trace", "property": run.prop, "case": json.loads(lines[s_]),
                               "steps": json.loads(lines[e_])["steps"] if e_ is not None else [{"a": "run", "p": 0}],
                               "line_in_case": ln - s_ + 1, "process_a": json.loads(a), "process_b": json.loads(b)}, f, indent=1)
                print(f"VIOLATION property={run.prop} replay={p}")
                print("  two processes executing one history differ: " + a[:200] + "  ||  " + b[:200])
                break
        if run.violations:
            break
    run.traces += 250 * len(traces)
    run.stages.append({"stage": "determinism[command-language app, separate processes]", "kind": "differential",
                       "histories": 250 if run.quick else 2500, "processes": len(traces)})
    run.sample({"history": hist[0]})
    run.stages.append({"stage": "determinism differential", "kind": "differential-replay", "histories": nh,
                       "processes": nproc, "runs_per_process": 2, "histories_with_divergence": diffs})


def legacy_timer(run):
    """the legacy capability API of crux_time: every bounded behaviour of LegacyTimer.tla executed under Core"""
    q = run.quick
    for n, maxact in ((1, 6), (2, 6 if q else 8)) + (() if q else ((3, 7),)):
        cases, fails, _ = table_check(run, "LegacyTimer",
                                      ["AtMostOneOutcome", "ClearedOnlyIfAppCleared", "ElapsedOnlyIfAnswered", "ClearedSetDrains"],
                                      {"MAXACT": str(maxact)}, 1, f"LegacyTimer-N{n}", consts=f"CONSTANT N = {n}\n")
        report_table_fails(run, "LegacyTimer", fails)


TIMER_INV = ["AtMostOneOutcome", "CompletedOnlyIfAnswered", "ClearedOnlyIfAppCleared", "EarlyClearSendsNothing",
             "ExactlyOneClearRequest", "DropHandleNeverCancels", "AbandonedOnlyIfDropped", "NothingAfterOutcome"]


def c18(run):
    run.assumptions = [
        "command API timers hosted one per Command and inspected directly; responses carry the kind the protocol "
        "requires; an answer that names another timer is part of the model (the task stops with a panic and reports "
        "nothing) and of the schedules for two and more timers",
        "the legacy capability API (Time::notify_after(cb), Time::clear(id)) is modelled separately in "
        "LegacyTimer.tla and executed under Core; D11 (clear after the outcome leaves the id in the process-wide "
        "set) is a recorded finding"]
    q = run.quick
    total = 0
    for n, maxact in ((1, 9 if q else 11), (2, 7 if q else 8)) + (() if q else ((3, 6),)):
        cfg = "SPECIFICATION MSpec\nCONSTANT N = %d\n" % n + "".join(f"INVARIANT {i}\n" for i in TIMER_INV) + \
              "INVARIANT EmitSched\nCONSTRAINT Useful\nCHECK_DEADLOCK FALSE\n"
        out = lib.mc(run, "MC_Timer", cfg, {"MAXACT": str(maxact)}, workers=8, timeout=1500, label=f"MC_Timer[N={n},maxact={maxact}]")
        scheds = []
        for m in lib.re.finditer(r'<<\s*"SCHED",\s*"((?:[^"\\]|\\.)*)"\s*>>', out, lib.re.S):
            scheds.append(json.loads(m.group(1).replace('\\"', '"')))
        cap = 20000 if q else 200000
        if len(scheds) > cap:
            step = len(scheds) / cap
            scheds = [scheds[int(i * step)] for i in range(cap)]
        if not scheds:
            raise lib.ToolError("no timer schedules harvested")
        cp, tp = run.path(f"timer{n}.cases"), run.path(f"timer{n}.trace")
        with open(cp, "w") as f:
            for k, s in enumerate(scheds):
                kinds = ["after" if (k + j) % 2 == 0 else "at" for j in range(n)]
                f.write(json.dumps({"n": n, "kinds": kinds, "steps": s}) + "\n")
        run.sample({"source": "TLC behaviour of Timer.tla", "timers": n, "steps": scheds[len(scheds) // 2]})
        rc, o = lib.sh([lib.BIN, "time", cp, tp], timeout=1800)
        if rc != 0:
            raise lib.ToolError("timer harness failed: " + o[-2000:])
        lib.validate_simple(run, "Trace_Timer", tp, consts=f"CONSTANT N = {n}\n", label=f"replay[N={n}]")
        # Trace_Timer's `seen` (ids already used in this process) starts empty in every chunk of a long
        # trace: uniqueness across chunks is stitched here
        ids, dup = set(), None
        with open(tp) as f:
            for ln, l in enumerate(f, 1):
                if '"eff_start"' in l:
                    for o in json.loads(l).get("outs", []):
                        if o.get("k") == "eff_start":
                            if o["id"] in ids and dup is None:
                                dup = (ln, o["id"])
                            ids.add(o["id"])
        if dup:
            run.violations += 1
            p = os.path.join(lib.WORK, "replay", f"{run.prop}-{run.violations}.json")
            with open(p, "w") as f:
                json.dump({"kind": "timer-id-reuse", "property": run.prop, "trace": tp, "line": dup[0], "id": dup[1]}, f)
            print(f"VIOLATION property={run.prop} replay={p}")
            print(f"  timer id {dup[1]} handed out twice in one process (trace line {dup[0]})")
        total += len(scheds)
        if n == 1:
            # binding self-test: a corrupted outcome must be rejected
            lines = open(tp).read().splitlines()[:400]
            for i, l in enumerate(lines):
                if "ev_completed" in l:
                    lines[i] = l.replace("ev_completed", "ev_cleared")
                    break
            else:
                raise lib.ToolError("timer self-test found nothing to corrupt")
            cut = max(j for j in range(i + 1, len(lines)) if '"e":"tcase"' in lines[j]) if i + 1 < len(lines) else len(lines)
            bad = run.path("timer.corrupt")
            with open(bad, "w") as f:
                f.write("\n".join(lines[:cut]) + "\n")
            rc, o = lib.tlc("Trace_Timer", lib.SIMPLE_CFG.format(consts="CONSTANT N = 1\n"), {"TRACE": bad}, dfs=True, tag="st")
            if "REJECTED_AT" not in o:
                raise lib.ToolError("Trace_Timer accepted a corrupted trace")
            run.stages.append({"stage": "binding-selftest", "spec": "Trace_Timer", "corruptions_rejected": 1})
    legacy_timer(run)


def tconv_rows():
    U64, I64, NPS = 18446744073709551615, 9223372036854775807, 1000000000
    DT = 8210266876799
    R = []
    add = lambda k, a, b=0: R.append({"kind": k, "a": str(a), "b": str(b)})
    for m in (0, 1, 12345, 2 ** 32, U64 // 1000000 - 1, U64 // 1000000, U64 // 1000000 + 1, 2 ** 63, U64 - 1, U64):
        add("dur_from_millis", m)
    for x in (0, 1, 86400, 2 ** 32, U64 // NPS - 1, U64 // NPS, U64 // NPS + 1, 2 ** 63, U64):
        add("dur_from_secs", x)
    for sc, sub in ((0, 0), (0, 1), (0, NPS - 1), (1, 0), (2 ** 34, 5), (U64 // NPS, U64 % NPS - 1), (U64 // NPS, U64 % NPS),
                    (U64 // NPS, U64 % NPS + 1), (U64 // NPS + 1, 0), (2 * (U64 // NPS) + 1, 7), (2 ** 63, 0), (U64, NPS - 1)):
        add("std_to_wire_dur", sc, sub)
    for d in (0, 1, NPS - 1, NPS, NPS + 1, 2 ** 32, I64 - 1, I64, I64 + 1, U64 - 1, U64):
        add("wire_to_std_dur", d)
        add("wire_to_delta", d)
    for sc, sub in ((0, 0), (0, 1), (1, 0), (-1, 0), (-1, NPS - 1), (-1, 1), (-86400, 0), (-(I64 // NPS), 0), (I64 // NPS, I64 % NPS - 1),
                    (I64 // NPS, I64 % NPS), (I64 // NPS, I64 % NPS + 1), (U64 // NPS, U64 % NPS), (U64 // NPS, U64 % NPS + 1),
                    (U64 // NPS + 1, 0), (9223372036854775, 0), (-9223372036854775, 0)):
        add("delta_to_wire_dur", sc, sub)
    for sc, n in ((0, 0), (1, NPS - 1), (1, NPS), (1, NPS + 1), (5, 2 ** 32 - 1), (U64, 0), (U64, NPS - 1), (U64, NPS)):
        add("instant_new", sc, n)
        add("wire_instant_deser", sc, n)
    for sc, n in ((0, 0), (1, 5), (NPS, 10), (2 ** 40, NPS - 1), (I64 - 1, NPS - 1), (I64, 0)):
        add("systime_to_instant", sc, n)
    for sc, n in ((0, 0), (NPS, 10), (2 ** 40, NPS - 1), (I64 - 1, NPS - 1), (I64, 0), (I64, NPS - 1), (I64 + 1, 0), (U64, NPS - 1)):
        add("instant_to_systime", sc, n)
    for sc, n in ((0, 0), (NPS, 10), (DT - 1, NPS - 1), (DT, 0), (DT, NPS - 1), (DT + 1, 0), (2 ** 40 * 16, 0), (I64, 0), (I64 + 1, 0), (U64, 0)):
        add("instant_to_datetime", sc, n)
    for ts, n in ((0, 0), (NPS, 10), (-1, 0), (-1, NPS - 1), (-86400, 5), (-DT, 0), (59, NPS - 1), (59, NPS), (59, 2 * NPS - 1),
                  (1483228799, NPS + 500), (DT, NPS - 1), (DT, 0)):
        add("datetime_to_instant", ts, n)
    add("chrono_max_ts", 0)
    return R


def tconv_rows_thorough(seed):
    """the quick rows plus seeded random values around every boundary and across every range"""
    import random
    rng = random.Random(seed)
    U64, I64, NPS, DT = 18446744073709551615, 9223372036854775807, 1000000000, 8210266876799
    R = tconv_rows()
    add = lambda k, a, b=0: R.append({"kind": k, "a": str(a), "b": str(b)})
    near = lambda c, lo, hi: min(max(c + rng.randint(-10 ** rng.randint(0, 7), 10 ** rng.randint(0, 7)), lo), hi)
    for _ in range(60):
        add("dur_from_millis", near(rng.choice([U64 // 1000000, U64, 2 ** 63, 0]), 0, U64))
        add("dur_from_secs", near(rng.choice([U64 // NPS, U64, 2 ** 63, 0]), 0, U64))
        add("std_to_wire_dur", near(rng.choice([U64 // NPS, 2 * (U64 // NPS), U64, 0]), 0, U64), rng.choice([0, NPS - 1, U64 % NPS, U64 % NPS + 1, rng.randrange(NPS)]))
        d = near(rng.choice([0, NPS, I64, U64, rng.randrange(U64)]), 0, U64)
        add("wire_to_std_dur", d)
        add("wire_to_delta", d)
        add("delta_to_wire_dur", near(rng.choice([0, -1, I64 // NPS, U64 // NPS, -(I64 // NPS)]), -9223372036854775, 9223372036854775),
            rng.choice([0, 1, NPS - 1, I64 % NPS, I64 % NPS + 1, U64 % NPS, U64 % NPS + 1, rng.randrange(NPS)]))
        sc, n = near(rng.choice([0, I64, U64, DT]), 0, U64), rng.choice([0, NPS - 1, NPS, NPS + 1, rng.randrange(2 ** 32)])
        add("instant_new", sc, n)
        add("wire_instant_deser", sc, n)
        add("instant_to_datetime", sc, min(n, 2 ** 32 - 1))
        add("instant_to_systime", sc, min(n, 2 ** 32 - 1))
        add("systime_to_instant", near(rng.choice([0, I64, 2 ** 40]), 0, I64), rng.randrange(NPS))
        add("datetime_to_instant", near(rng.choice([0, -1, DT, -DT, 59, 1483228799]), -DT, DT), rng.choice([0, NPS - 1, rng.randrange(NPS), NPS, 2 * NPS - 1]))
    return R


def c19(run):
    """TimeConv.tla (exact integer arithmetic, Apalache): the round trips hold for every value; rows recorded from
    the real conversions at and around every boundary are validated against it"""
    run.level = "exploration"
    run.extra["rule"] = ("rows at and around every boundary of every representation, executed on the real conversions and "
                         "validated against TimeConv.tla by Apalache; the specification's round trips are checked symbolically")
    run.assumptions = [
        "Apalache, not TLC: the values do not fit 32-bit integers",
        "rows at and around the boundaries of every representation (0, 1, 10^9 +- 1, i64::MAX +- 1, u64::MAX +- 1, "
        "u64::MAX / 10^6 and / 10^9 +- 1, chrono's MAX_UTC +- 1, negative deltas and timestamps, leap-second nanos); "
        "the spec's own round-trip theorems are symbolic (every value)",
        "SystemTime as on this platform (i64 seconds); between i64::MAX and u64::MAX nanoseconds a chrono TimeDelta "
        "conversion may also be rejected (chrono cannot hand out the count as an i64)"]
    d = run.dir
    import shutil
    shutil.copy(os.path.join(lib.SPEC, "TimeConv.tla"), os.path.join(d, "TimeConv.tla"))
    shutil.copy(os.path.join(lib.SPEC, "Ind_TimeConv.tla"), os.path.join(d, "Ind_TimeConv.tla"))
    t0 = lib.time.time()

    def apalache(module, inv):
        rc, out = lib.sh(["apalache-mc", "check", "--init=Init", f"--inv={inv}", "--length=0",
                          "--out-dir=" + os.path.join(lib.WORK, "apalache"), module], cwd=d, timeout=900)
        if "The outcome is: NoError" in out:
            return True
        if "The outcome is: Error" in out:
            return False
        raise lib.ToolError("Apalache broke:\n" + out[-2000:])
    if not apalache("Ind_TimeConv.tla", "RoundTrips"):
        raise lib.ToolError("TimeConv.tla does not satisfy its own round-trip theorems")
    run.stages.append({"stage": "Ind_TimeConv[RoundTrips, every value]", "kind": "apalache-symbolic", "outcome": "NoError",
                       "wall_s": round(lib.time.time() - t0, 1)})
    rows = tconv_rows() if run.quick else tconv_rows_thorough(run.seed)
    rp, op = run.path("rows.ndjson"), run.path("rows.out")
    with open(rp, "w") as f:
        for r in rows:
            f.write(json.dumps(r) + "\n")
    lib.build_harness()
    rc, o = lib.sh([lib.BIN, "tconv", rp, op], timeout=300)
    if rc != 0:
        raise lib.ToolError("tconv harness failed: " + o[-2000:])
    got = [json.loads(l) for l in open(op)]
    if len(got) < len(rows) * 0.8:
        raise lib.ToolError(f"only {len(got)} of {len(rows)} rows could be set up")

    def check(sub, inv="AllConform"):
        recs = ",\n  ".join('[kind |-> "%s", a |-> %s, b |-> %s, ok |-> %s, x |-> %s, y |-> %s]'
                            % (g["kind"], g["a"], g["b"], "TRUE" if g["res"] == "ok" else "FALSE", g["x"], g["y"]) for g in sub)
        with open(os.path.join(d, "Ind_TimeRows.tla"), "w") as f:
            f.write("---- MODULE Ind_TimeRows ----\nEXTENDS TimeConv, Sequences\nVARIABLE\n  \\* @type: Int;\n  dummy\n"
                    "Init == dummy = 0\nNext == UNCHANGED dummy\n"
                    "\\* @type: Seq({ kind: Str, a: Int, b: Int, ok: Bool, x: Int, y: Int });\nRows == <<\n  " + recs + " >>\n"
                    "AllConform == \\A i \\in DOMAIN Rows : Conforms(Rows[i])\n"
                    "AllDeviate == \\A i \\in DOMAIN Rows : ~Conforms(Rows[i])\n====\n")
        return apalache("Ind_TimeRows.tla", inv)

    def nonconforming(sub):
        # all rows at once; if that fails, kind by kind; inside a failing kind, row by row
        if not sub or check(sub):
            return []
        out = []
        for k in sorted({g["kind"] for g in sub}):
            part = [g for g in sub if g["kind"] == k]
            if not check(part):
                out += [g for g in part if not check([g])]
        return out

    def covered(g):
        for f in lib.kf_for(run.prop):
            for rule in f.get("row_rules", []):
                if g["kind"] == rule["kind"] and int(g["b"]) >= rule.get("b_min", 0):
                    return f
        return None
    # rows a recorded finding covers: they either all conform (the finding has been repaired: nothing to say) or
    # all deviate (the finding is exercised: one KNOWN-FINDING line); a mixture is sorted out row by row
    kfrows = [g for g in got if covered(g)]
    rest = [g for g in got if not covered(g)]
    bad = nonconforming(rest)
    if kfrows and not check(kfrows):
        dev = kfrows if check(kfrows, "AllDeviate") else [g for g in kfrows if not check([g])]
        for g in dev:
            run.known(covered(g))
    for g in bad:
        run.violations += 1
        p = os.path.join(lib.WORK, "replay", f"{run.prop}-{run.violations}.json")
        with open(p, "w") as f:
            json.dump({"kind": "tconv-row", "property": run.prop, "row": {"kind": g["kind"], "a": g["a"], "b": g["b"]},
                       "observed": g}, f, indent=1)
        print(f"VIOLATION property={run.prop} replay={p}")
        print("  the conversion does not do what TimeConv.tla says: " + json.dumps(g))
    run.traces += len(got)
    run.stages.append({"stage": "rows[crux_time conversions]", "kind": "trace-validation(apalache)", "rows": len(got),
                       "rows_not_representable_here": len(rows) - len(got), "nonconforming": len(bad),
                       "wall_s": round(lib.time.time() - t0, 1)})
    run.sample({"row": got[len(got) // 2]})


CHECKS = {"C19": c19, "C14": c14, "C15": c15, "C16": c16, "C17": c17, "C11": c11, "C18": c18, "C08": c08, "C12": c12, "C01": c01, "C02": c02, "C03": c03, "C04": c04, "C05": c05, "C06": c06, "C07": c07,
          "C09": c09, "C13": c13}
