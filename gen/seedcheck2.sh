#!/bin/bash
# seedcheck2.sh <worktree> <seed-id> <crate> <props...>
# Like seedcheck.sh, but runs the checks from the current directory (a snapshot of /verif) against the
# repository copy named by VERIF_REPO, so that /repo and /verif themselves stay untouched.
set -u
WT=$1; ID=$2; CRATE=$3; shift 3
export RUSTUP_TOOLCHAIN=stable-x86_64-unknown-linux-gnu
HERE=$PWD
REPO=${VERIF_REPO:?set VERIF_REPO to a scratch copy of the repository}
OUT=/verif/seeded/$ID; mkdir -p $OUT
cd $WT || exit 2
DEMO=$CRATE/tests/seeded_demo.rs
[ -f patch.diff ] && [ -f $DEMO ] || { echo "missing patch.diff or demo"; exit 2; }
cp patch.diff $OUT/patch.diff; cp $DEMO $OUT/seeded_demo.rs; cp NOTES.md $OUT/NOTES.md 2>/dev/null
git apply --check -R patch.diff 2>/dev/null || git apply patch.diff
mv $DEMO $WT/../seeded_demo_$ID.rs
SUITE=$(cargo test --workspace --offline --lib --bins --tests 2>&1 | grep -E "^test result" | awk '{p+=$4; f+=$6} END {print p" passed "f" failed"}')
mv $WT/../seeded_demo_$ID.rs $DEMO
WITH=$(cargo test -p $CRATE --offline ${SEED_FEATURES:-} --test seeded_demo 2>&1 | grep -E "^test result" | tail -1)
git apply -R patch.diff
WITHOUT=$(cargo test -p $CRATE --offline ${SEED_FEATURES:-} --test seeded_demo 2>&1 | grep -E "^test result" | tail -1)
git apply patch.diff
echo "[$ID] suite with change: $SUITE"; echo "[$ID] demo with change: $WITH"; echo "[$ID] demo without: $WITHOUT"
cd $REPO
if ! git apply $OUT/patch.diff 2>/dev/null; then
  # the tree has moved on since the change was made (hook commits): carry the change over with a 3-way merge
  git apply -3 $OUT/patch.diff || { echo "[$ID] patch does not apply to $REPO, not even 3-way"; git checkout -- . ; git reset -q; exit 2; }
  git reset -q
  cp $OUT/patch.diff $OUT/patch.orig.diff
  git diff > $OUT/patch.diff
  echo "[$ID] patch carried over to $(git rev-parse --short HEAD) by 3-way merge (original kept as patch.orig.diff)"
fi
RES=""
for P in "$@"; do
  cd $HERE && ./check $P > $OUT/check_$P.log 2>&1; RC=$?
  V=$(grep -c "^VIOLATION" $OUT/check_$P.log)
  echo "[$ID] check $P: exit $RC, $V violation line(s)"; RES="$RES $P:exit$RC"
done
cd $REPO && git checkout -- . && git status --short | head -3
python3 - <<PY
import json
json.dump({"seed": "$ID", "suite_with_change": "$SUITE", "demo_with_change": "$WITH", "demo_without_change": "$WITHOUT",
           "checks_run": "$RES".split()}, open("$OUT/run.json", "w"), indent=1)
PY
