#!/usr/bin/env python3
"""xloop.py <raw trace> <out cases>: the recorder's QueuingExecutor events (x...) grouped by executor.

Each executor becomes one case that starts with its `xnew` event.  Executors whose events come from more than
one thread are left out (nothing orders their lines) and counted.  Prints a JSON summary."""
import collections
import json
import sys

MAX_EVENTS = 4000


def main(raw, out):
    cases, threads = {}, {}
    order = []
    orphans = 0
    for l in open(raw):
        try:
            d = json.loads(l)
        except ValueError:
            continue
        if not d["e"].startswith("x"):
            continue
        c = d["c"]
        if d["e"] == "xnew":
            cases[c] = []
            threads[c] = set()
            order.append(c)
        if c not in cases:
            orphans += 1
            continue
        cases[c].append({"e": d["e"], "a": d["a"], "b": d["b"], "d": d["d"]})
        if d["e"] != "xnew":
            threads[c].add(d["th"])
    kept = multi = big = 0
    kinds = collections.Counter()
    with open(out, "w") as f:
        for c in order:
            ev = cases[c]
            if len(threads[c]) > 1:
                multi += 1
                continue
            if len(ev) > MAX_EVENTS:
                big += 1
                continue
            kept += 1
            for e in ev:
                kinds[e["e"]] += 1
                f.write(json.dumps(e, separators=(",", ":")) + "\n")
    print(json.dumps({"executors": kept, "multi_thread_executors_left_out": multi, "orphan_events": orphans,
                      "executors_over_%d_events_left_out" % MAX_EVENTS: big, "events": dict(kinds)}))


if __name__ == "__main__":
    main(sys.argv[1], sys.argv[2])
